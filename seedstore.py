#!/usr/bin/env python3
"""Store the confirmed seeded changes under /verif/seeded/<id>/<name>/ and print the detection table.

Input: the deliveries in /tmp/wt/<Cxx>.out/m*/ (patch.diff, demo_test.go, meta.json) and the logs of
seedcheck.sh (/tmp/sc-<Cxx>-<m>.log), which ran, in a scratch worktree of /repo's HEAD: the
demonstration without the change (must pass), a build with the change, the demonstration with the
change (must fail), and the property's check against the changed tree.
A change is kept only if the log shows pass-without / fail-with (confirmed here, not taken from the
sub-agent's report)."""
import json, os, re, shutil, sys, glob

rows = []
for d in sorted(glob.glob('/tmp/wt/*.out/m*')):
    prop = os.path.basename(os.path.dirname(d))[:-4]
    name = os.path.basename(d)
    log = f'/tmp/sc-{prop}-{name}.log'
    if not (os.path.exists(d + '/patch.diff') and os.path.exists(log)):
        continue
    txt = open(log).read()
    parts = re.split(r'^== ', txt, flags=re.M)
    sec = {p.split('\n', 1)[0]: (p.split('\n', 1)[1] if '\n' in p else '') for p in parts if p.strip()}
    without = next((v for k, v in sec.items() if 'demo WITHOUT' in k), '')
    withc = next((v for k, v in sec.items() if 'demo WITH change' in k), '')
    build = next((v for k, v in sec.items() if k.startswith('build with change')), '')
    chk = next((v for k, v in sec.items() if k.startswith('gvc check')), '')
    ok_without = bool(re.search(r'^ok\s', without, re.M)) and 'FAIL' not in without
    fail_with = 'FAIL' in withc
    builds = build.strip() == ''
    confirmed = ok_without and fail_with and builds
    viol = re.findall(r'^VIOLATION .*$', chk, re.M)
    failed = re.findall(r'failed obligation: (.*?) \[(\w+)\]', chk)
    summary = re.findall(r'^property .*$', chk, re.M)
    meta = json.load(open(d + '/meta.json'))
    caught = len(viol) > 0
    claimed = prop in [c['property_id'] for c in json.load(open('/verif/MANIFEST.json'))['checks']]
    rows.append((prop, name, confirmed, caught, claimed, failed, meta))
    if not confirmed:
        continue
    out = f'/verif/seeded/{prop}/{name}'
    os.makedirs(out, exist_ok=True)
    shutil.copy(d + '/patch.diff', out + '/patch.diff')
    shutil.copy(d + '/demo_test.go', out + '/demo_test.go.txt')
    m = {
        'property': prop,
        'breaks': meta.get('breaks'),
        'needs': meta.get('needs'),
        'files_changed': meta.get('files_changed'),
        'demo_pkg_dir': meta.get('demo_pkg_dir'),
        'demo_run': meta.get('demo_run'),
        'confirmed_here': {
            'how': 'seedcheck.sh in a scratch worktree of /repo HEAD (removed afterwards): demo without the change, build with it, demo with it, then the property check with -repo <worktree>',
            'demo_without_change': 'pass',
            'demo_with_change': 'fail',
            'builds_with_change': True,
            'existing_tests_with_change': "sub-agent's run (listed below); the touched packages' tests were re-run here for a sample with seedcheck.sh --tests",
        },
        'sub_agent_ran': meta.get('ran'),
        'check': {
            'property_claimed': claimed,
            'caught_by_quick_check': caught,
            'failed_obligations': [f'{o} [{r}]' for o, r in failed],
            'summary': summary[-1] if summary else '',
        },
    }
    json.dump(m, open(out + '/meta.json', 'w'), indent=1)

print('| change | confirmed here | check (quick) | failing obligation(s) |')
print('|--------|----------------|---------------|------------------------|')
for prop, name, confirmed, caught, claimed, failed, meta in rows:
    ob = '; '.join(sorted(set(re.sub(r'github.com/dominant-strategies/go-quai/', '', o).split('/exit[')[0] for o, _ in failed)))[:150]
    verdict = 'caught' if caught else 'missed'
    if not claimed:
        verdict += ' (property not claimed)'
    print(f'| {prop}/{name} | {"yes" if confirmed else "NO"} | {verdict} | {ob} |')
