package main

import (
	"bytes"
	"context"
	"fmt"
	"os"
	"os/exec"
	"path/filepath"
	"strings"
	"sync"
	"time"
)

type solverSpec struct {
	name string
	argv func(file string, timeoutS int, seed int) []string
}

var solvers = []solverSpec{
	{"z3-5.1.0", func(file string, t int, seed int) []string {
		return []string{"z3-new", fmt.Sprintf("-T:%d", t), fmt.Sprintf("smt.random_seed=%d", seed), file}
	}},
	{"cvc5-1.0.3", func(file string, t int, seed int) []string {
		return []string{"cvc5", fmt.Sprintf("--tlimit=%d", t*1000), fmt.Sprintf("--seed=%d", seed), "--produce-models", file}
	}},
	{"z3-5.1.0-ematch", func(file string, t int, seed int) []string {
		return []string{"z3-new", fmt.Sprintf("-T:%d", t), fmt.Sprintf("smt.random_seed=%d", seed), "smt.mbqi=false", "smt.auto_config=false", file}
	}},
	{"z3-4.8.12", func(file string, t int, seed int) []string {
		return []string{"/usr/bin/z3", fmt.Sprintf("-T:%d", t), fmt.Sprintf("smt.random_seed=%d", seed), file}
	}},
}

type solveOpts struct {
	timeoutS int
	seed     int
	workDir  string
	jobs     int
	fullCovers bool // cover/canary queries on the full assumption set (thorough tier)
	only     string // restrict to one solver (name prefix)
	all      bool   // wait for all solvers and record agreement
}

type solverAnswer struct {
	solver string
	result string
	out    string
	timeS  float64
}

func runSolver(ctx context.Context, s solverSpec, file string, opts solveOpts) solverAnswer {
	start := time.Now()
	argv := s.argv(file, opts.timeoutS, opts.seed)
	cctx, cancel := context.WithTimeout(ctx, time.Duration(opts.timeoutS+5)*time.Second)
	defer cancel()
	cmd := exec.CommandContext(cctx, argv[0], argv[1:]...)
	var out bytes.Buffer
	cmd.Stdout = &out
	cmd.Stderr = &out
	_ = cmd.Run()
	txt := out.String()
	first := strings.TrimSpace(strings.SplitN(txt, "\n", 2)[0])
	res := "unknown"
	switch first {
	case "sat", "unsat":
		res = first
		if first == "sat" && strings.HasSuffix(s.name, "-ematch") {
			res = "unknown"
		}
	case "timeout":
		res = "timeout"
	default:
		if strings.Contains(txt, "timeout") || cctx.Err() != nil {
			res = "timeout"
		} else if strings.HasPrefix(first, "(error") {
			res = "error"
		}
	}
	return solverAnswer{solver: s.name, result: res, out: txt, timeS: time.Since(start).Seconds()}
}

// solveObl races the solvers on one obligation.
func solveObl(o *Obl, idx int, opts solveOpts) {
	// first attempt on the relevant slice of the assumptions (sound for unsat); a sat / unknown
	// answer on the slice is re-examined on the full query
	if o.ExpectSat && !o.noSlice && !opts.fullCovers && len(o.ctx.asserts) > 400 {
		// vacuity guards: an unsat answer on a slice of the assumptions is already a proof of vacuity;
		// a sat answer on the slice is accepted in the quick tier (the thorough tier checks the full query)
		sl := *o
		sl.noSlice = true
		sl.sliced = true
		sl.hops = 4
		so := opts
		if so.timeoutS > 4 {
			so.timeoutS = 4
		}
		solveObl(&sl, idx, so)
		o.Result, o.Solver, o.TimeS, o.RawOut, o.File, o.Size, o.Agree, o.Model = sl.Result, sl.Solver+"+slice4", sl.TimeS, sl.RawOut, sl.File, sl.Size, sl.Agree, sl.Model
		return
	}
	if !o.ExpectSat && !o.noSlice && len(o.ctx.asserts) > 400 {
		for _, hops := range []int{3, 6, 0} {
			sl := *o
			sl.noSlice = true
			sl.sliced = true
			sl.hops = hops
			so := opts
			if hops > 0 && so.timeoutS > 10 {
				so.timeoutS = 10
			}
			solveObl(&sl, idx, so)
			if sl.Result == "unsat" {
				tag := "+slice"
				if hops > 0 {
					tag = fmt.Sprintf("+slice%d", hops)
				}
				o.Result, o.Solver, o.TimeS, o.RawOut, o.File, o.Size, o.Agree = sl.Result, sl.Solver+tag, sl.TimeS, sl.RawOut, sl.File, sl.Size, sl.Agree
				return
			}
		}
		o.noSlice = true
	}
	script := o.scriptOpt(true, o.sliced)
	file := filepath.Join(opts.workDir, fmt.Sprintf("q%05d.smt2", idx))
	if err := os.WriteFile(file, []byte(script), 0o644); err != nil {
		o.Result = "error"
		o.RawOut = err.Error()
		return
	}
	o.File = file
	o.Size = len(script)
	ctx, cancel := context.WithCancel(context.Background())
	defer cancel()
	ch := make(chan solverAnswer, len(solvers))
	n := 0
	hasQ := strings.Contains(script, "(forall ")
	for _, s := range solvers {
		if opts.only != "" && !strings.HasPrefix(s.name, opts.only) {
			continue
		}
		if s.name == "z3-5.1.0-ematch" && !hasQ {
			continue
		}
		n++
		go func(s solverSpec) { ch <- runSolver(ctx, s, file, opts) }(s)
	}
	var answers []solverAnswer
	for i := 0; i < n; i++ {
		a := <-ch
		answers = append(answers, a)
		if (a.result == "sat" || a.result == "unsat") && !opts.all {
			cancel()
			break
		}
	}
	// pick the definitive answer; detect disagreement
	var def *solverAnswer
	for i := range answers {
		a := &answers[i]
		if a.result == "sat" || a.result == "unsat" {
			if def == nil {
				def = a
			} else if def.result != a.result {
				o.Result = "disagree"
				o.RawOut = def.solver + ":" + def.result + " vs " + a.solver + ":" + a.result
				return
			}
		}
	}
	if def == nil {
		o.Result = "unknown"
		for _, a := range answers {
			if a.result == "timeout" {
				o.Result = "timeout"
			}
			o.RawOut += a.solver + ": " + firstLines(a.out, 3) + "\n"
			if a.timeS > o.TimeS {
				o.TimeS = a.timeS
			}
		}
		return
	}
	o.Result = def.result
	o.Solver = def.solver
	o.TimeS = def.timeS
	o.RawOut = def.out
	if def.result == "sat" {
		o.Model = parseModel(def.out)
	}
	for _, a := range answers {
		if a.result == def.result {
			o.Agree = append(o.Agree, a.solver)
		}
	}
}

func firstLines(s string, n int) string {
	ls := strings.Split(strings.TrimSpace(s), "\n")
	if len(ls) > n {
		ls = ls[:n]
	}
	return strings.Join(ls, " | ")
}

// parseModel parses the (get-value ...) answer: ((name value) ...)
func parseModel(out string) map[string]string {
	i := strings.Index(out, "\n")
	if i < 0 {
		return nil
	}
	body := strings.TrimSpace(out[i+1:])
	if !strings.HasPrefix(body, "(") {
		return nil
	}
	m := map[string]string{}
	// body is "((a v) (b v) ...)"
	inner := body
	// find matching close of the first paren
	d := 0
	end := -1
	inq := false
	for k := 0; k < len(inner); k++ {
		ch := inner[k]
		if inq {
			if ch == '|' {
				inq = false
			}
			continue
		}
		if ch == '|' {
			inq = true
		} else if ch == '(' {
			d++
		} else if ch == ')' {
			d--
			if d == 0 {
				end = k
				break
			}
		}
	}
	if end < 0 {
		return nil
	}
	inner = inner[:end+1]
	pairs := sexprArgsAll(inner)
	for _, p := range pairs {
		kv := sexprArgsAll(p)
		if len(kv) == 2 {
			m[kv[0]] = kv[1]
		}
	}
	return m
}

// sexprArgsAll splits "(a b c)" into [a b c] (all elements).
func sexprArgsAll(s string) []string {
	r := sexprArgs("(_ " + strings.TrimSpace(s)[1:])
	return r
}

func solveAll(obls []*Obl, opts solveOpts) {
	if opts.jobs <= 0 {
		opts.jobs = 6
	}
	os.MkdirAll(opts.workDir, 0o755)
	var wg sync.WaitGroup
	sem := make(chan struct{}, opts.jobs)
	for i, o := range obls {
		// trivial goals
		if !o.ExpectSat && (o.Goal == sTrue || o.Cond == sFalse) {
			o.Result = "unsat"
			o.Solver = "trivial"
			continue
		}
		if o.Kind == "cover-pre" {
			continue // solved on demand below
		}
		wg.Add(1)
		sem <- struct{}{}
		go func(i int, o *Obl) {
			defer wg.Done()
			defer func() { <-sem }()
			solveObl(o, i, opts)
		}(i, o)
	}
	wg.Wait()
	// pre-covers only for call sites whose post-cover came back unsat
	for i, o := range obls {
		if o.Kind == "cover" && o.Result == "unsat" && o.Pre != nil && o.Pre.Result == "" {
			wg.Add(1)
			sem <- struct{}{}
			go func(i int, o *Obl) {
				defer wg.Done()
				defer func() { <-sem }()
				solveObl(o, 100000+i, opts)
			}(i, o.Pre)
		}
	}
	wg.Wait()
}
