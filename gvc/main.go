package main

import (
	"flag"
	"os/exec"
	"fmt"
	"os"
	"sort"
	"strings"
	"time"
)

func main() {
	if len(os.Args) < 2 {
		fmt.Fprintln(os.Stderr, "usage: gvc <dump|check|...> ...")
		os.Exit(2)
	}
	switch os.Args[1] {
	case "dump":
		cmdDump(os.Args[2:])
	case "check":
		cmdCheck(os.Args[2:])
	case "warm":
		if _, err := loadEngine("/repo", defaultPkgs); err != nil {
			fmt.Fprintln(os.Stderr, "warm:", err)
			os.Exit(1)
		}
	case "replay":
		cmdReplay(os.Args[2:])
	case "why":
		e, err := loadEngine("/repo", defaultPkgs)
		if err != nil {
			fmt.Fprintln(os.Stderr, err)
			os.Exit(1)
		}
		for fn := range e.allFuncs {
			if strings.Contains(fn.String(), os.Args[2]) {
				e.explainTop(fn, 0, map[string]bool{})
			}
		}
	default:
		fmt.Fprintln(os.Stderr, "unknown command")
		os.Exit(2)
	}
}

func cmdDump(args []string) {
	fs := flag.NewFlagSet("dump", flag.ExitOnError)
	repo := fs.String("repo", "/repo", "")
	pk := fs.String("pkgs", "", "comma-separated package patterns")
	timeout := fs.Int("t", 10, "")
	only := fs.String("solver", "", "")
	keep := fs.Bool("keep", false, "keep smt files")
	noSolve := fs.Bool("nosolve", false, "generate only")
	bisect := fs.Bool("bisect", false, "find the first assertion that makes the assumptions unsatisfiable")
	fullCovers := fs.Bool("fullcovers", false, "cover queries on the full assumption set")
	oblF := fs.String("obl", "", "only obligations whose name contains this string")
	fullModel := fs.String("fullmodel", "", "write the full model of failing obligations whose name contains this string to /tmp/gvc-model-<n>.txt")
	fs.Parse(args)
	pats := defaultPkgs
	if *pk != "" {
		pats = strings.Split(*pk, ",")
	}
	t0 := time.Now()
	e, err := loadEngine(*repo, pats)
	if err != nil {
		fmt.Fprintln(os.Stderr, "load:", err)
		os.Exit(2)
	}
	fmt.Printf("loaded %d packages, %d functions in %.1fs\n", len(e.spkgs), len(e.allFuncs), time.Since(t0).Seconds())
	work, _ := os.MkdirTemp("", "gvc")
	if !*keep {
		defer os.RemoveAll(work)
	} else {
		fmt.Println("work dir", work)
	}
	want := fs.Args()
	for _, fn := range e.contractFns {
		ct := e.contracts[fn]
		if ct.Trusted {
			continue
		}
		if len(want) > 0 {
			ok := false
			for _, w := range want {
				if strings.Contains(fn.String(), w) {
					ok = true
				}
			}
			if !ok {
				continue
			}
		}
		t1 := time.Now()
		rep := e.verifyFunction(fn, ct)
		gen := time.Since(t1).Seconds()
		if *oblF != "" {
			var sel []*Obl
			for _, o := range rep.Obls {
				if strings.Contains(o.Name, *oblF) {
					sel = append(sel, o)
				}
			}
			rep.Obls = sel
		}
		if *bisect && len(rep.Obls) > 0 {
			bisectAssumptions(rep.Obls[len(rep.Obls)-1])
			continue
		}
		if *noSolve {
			tot := 0
			for i, o := range rep.Obls {
				sc := o.script(false)
				tot += len(sc)
				if *keep {
					os.WriteFile(fmt.Sprintf("%s/obl%d.smt2", work, i), []byte(sc), 0o644)
				}
			}
			fmt.Printf("== %s: %d obligations generated in %.2fs, total script bytes %d\n", rep.Func, len(rep.Obls), gen, tot)
			continue
		}
		solveAll(rep.Obls, solveOpts{timeoutS: *timeout, workDir: work, jobs: 8, only: *only, fullCovers: *fullCovers})
		fmt.Printf("== %s: %d blocks %d instrs %d loops %d exits, %d obligations (gen %.2fs)\n", rep.Func, rep.Blocks, rep.Instrs, rep.Loops, rep.Exits, len(rep.Obls), gen)
		for _, s := range rep.SpecErrs {
			fmt.Println("   SPEC ERROR:", s)
		}
		var notes []string
		for k, v := range rep.Notes {
			notes = append(notes, fmt.Sprintf("%s×%d", k, v))
		}
		sort.Strings(notes)
		if len(notes) > 0 {
			fmt.Println("   notes:", strings.Join(notes, ", "))
		}
		for _, o := range rep.Obls {
			status := o.Result
			if o.Kind == "cover-pre" {
				continue
			}
			if o.Kind == "cover-exit" && o.Result == "unsat" {
				fmt.Printf("   DEAD unsat   %-9s %5.2fs %s\n", o.Solver, o.TimeS, o.Name)
				continue
			}
			good := (o.ExpectSat && o.Result == "sat") || (!o.ExpectSat && o.Result == "unsat")
			if o.ExpectSat && o.Result == "unsat" && o.Pre != nil && o.Pre.Result == "unsat" {
				good = true
			}
			if o.ExpectSat && o.Result != "unsat" && o.Result != "sat" {
				good = true // inconclusive cover: not evidence of vacuity
			}
			mark := "ok  "
			if !good {
				mark = "FAIL"
			}
			fmt.Printf("   %s %-7s %-9s %5.2fs %6dB %s\n", mark, status, o.Solver, o.TimeS, o.Size, o.Name)
			if !good && o.Result == "sat" && o.Kind != "cover" && o.Kind != "canary" {
				var ks []string
				for k := range o.Model {
					ks = append(ks, k)
				}
				sort.Strings(ks)
				for _, k := range ks {
					v := o.Model[k]
					if len(v) > 100 {
						v = v[:100] + "..."
					}
					fmt.Printf("        %s = %s\n", k, v)
				}
			}
			if !good && o.Result == "sat" && *fullModel != "" && strings.Contains(o.Name, *fullModel) {
				dumpFullModel(o)
			}
			if !good && o.Result != "sat" {
				fmt.Printf("        %s\n", firstLines(o.RawOut, 3))
			}
		}
	}
	for _, sf := range e.specFiles {
		if len(sf.Globals) == 0 {
			continue
		}
		show := len(want) == 0
		for _, w := range want {
			if strings.Contains("globals "+sf.Pkg, w) {
				show = true
			}
		}
		if !show {
			continue
		}
		rep := e.verifyGlobals(sf)
		solveAll(rep.Obls, solveOpts{timeoutS: *timeout, workDir: work, jobs: 8, only: *only})
		fmt.Printf("== globals of %s: %d blocks %d instrs, %d obligations\n", sf.Pkg, rep.Blocks, rep.Instrs, len(rep.Obls))
		for _, s := range rep.SpecErrs {
			fmt.Println("   SPEC ERROR:", s)
		}
		for k, v := range rep.Notes {
			fmt.Printf("   note: %s x%d\n", k, v)
		}
		for _, o := range rep.Obls {
			fmt.Printf("   %-7s %-9s %5.2fs %s\n", o.Result, o.Solver, o.TimeS, o.Name)
		}
	}
	for _, sf := range e.specFiles {
		for _, l := range sf.Lemmas {
			if len(want) > 0 {
				ok := false
				for _, w := range want {
					if strings.Contains("lemma "+l.Name, w) {
						ok = true
					}
				}
				if !ok {
					continue
				}
			}
			rep := e.verifyLemma(l)
			solveAll(rep.Obls, solveOpts{timeoutS: *timeout, workDir: work, jobs: 8, only: *only})
			for _, s := range rep.SpecErrs {
				fmt.Println("   SPEC ERROR:", s)
			}
			for _, o := range rep.Obls {
				fmt.Printf("   %-7s %-9s %5.2fs %s\n", o.Result, o.Solver, o.TimeS, o.Name)
			}
		}
	}
}


var fullModelN int

func dumpFullModel(o *Obl) {
	fullModelN++
	script := o.script(true)
	if i := strings.LastIndex(script, "(get-value"); i >= 0 {
		script = script[:i]
	}
	script += "(get-model)\n"
	in := fmt.Sprintf("/tmp/gvc-model-%d.smt2", fullModelN)
	out := fmt.Sprintf("/tmp/gvc-model-%d.txt", fullModelN)
	os.WriteFile(in, []byte(script), 0o644)
	res, _ := exec.Command("z3-new", "-T:30", in).CombinedOutput()
	os.WriteFile(out, res, 0o644)
	fmt.Printf("        full model: %s (query %s)\n", out, in)
	// path: blocks of the top function whose reachability constant is true in the model
	model := string(res)
	var lines []string
	for term, info := range o.ctx.reachInfo {
		name := strings.Trim(term, "|")
		idx := strings.Index(model, "(define-fun "+name+" ()")
		if idx < 0 {
			idx = strings.Index(model, "(define-fun |"+name+"| ()")
		}
		if idx < 0 {
			continue
		}
		seg := model[idx:]
		if nl := strings.Index(seg, "\n"); nl >= 0 {
			seg2 := seg[nl+1:]
			if e2 := strings.Index(seg2, "\n"); e2 >= 0 {
				if strings.Contains(seg2[:e2], "true") {
					lines = append(lines, info)
				}
			}
		}
	}
	sort.Slice(lines, func(i, j int) bool {
		var a, b int
		fmt.Sscanf(lines[i], "b%d", &a)
		fmt.Sscanf(lines[j], "b%d", &b)
		return a < b
	})
	for _, l := range lines {
		fmt.Printf("        path: %s\n", l)
	}
}

// bisectAssumptions finds the first assertion that makes the accumulated assumptions of a
// function's verification context unsatisfiable (debugging aid for vacuity).
func bisectAssumptions(o *Obl) {
	c := o.ctx
	keepCond := false
	check := func(n int) string {
		tmp := *o
		tmp.NAsserts = n
		if !keepCond {
			tmp.Cond = sTrue
		}
		tmp.Goal = sTrue
		tmp.ExpectSat = true
		tmp.Extra = nil
		script := tmp.scriptOpt(false, false)
		os.WriteFile("/tmp/gvc-bisect.smt2", []byte(script), 0o644)
		out, _ := exec.Command("z3-new", "-T:20", "/tmp/gvc-bisect.smt2").CombinedOutput()
		return strings.TrimSpace(strings.SplitN(string(out), "\n", 2)[0])
	}
	n := len(c.asserts)
	if o.NAsserts > 0 && o.NAsserts < n {
		n = o.NAsserts
	}
	r0 := check(n)
	fmt.Printf("   all %d assertions: %s\n", n, r0)
	if r0 != "unsat" {
		keepCond = true
		fmt.Printf("   with the obligation's path condition %s: %s\n", o.Cond, check(n))
	}
	lo, hi := 0, n
	for lo < hi {
		mid := (lo + hi) / 2
		if check(mid) == "unsat" {
			hi = mid
		} else {
			lo = mid + 1
		}
	}
	if lo <= n && lo > 0 {
		a := c.asserts[lo-1]
		if len(a) > 1500 {
			a = a[:1500]
		}
		fmt.Printf("   first unsat prefix: %d\n   assertion: %s\n", lo, a)
		for k := lo - 2; k >= 0 && k >= lo-6; k-- {
			b := c.asserts[k]
			if len(b) > 600 {
				b = b[:600]
			}
			fmt.Printf("   assertion %d: %s\n", k+1, b)
		}
	}
}
