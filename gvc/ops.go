package main

import (
	"fmt"
	"go/token"
	"go/types"
	"math/big"
	"strings"

	"golang.org/x/tools/go/ssa"
)

// wrap reduces an integer term into the range of basic type bt (machine arithmetic).
func (c *Ctx) wrap(term string, t types.Type) string {
	b, ok := t.Underlying().(*types.Basic)
	if !ok {
		return term
	}
	lo, hi := intRange(b)
	if lo == nil {
		return term
	}
	return c.wrapRange(term, lo, hi)
}

func (c *Ctx) wrapRange(term string, lo, hi *big.Int) string {
	if n, ok := litBig(term); ok {
		size := new(big.Int).Add(new(big.Int).Sub(hi, lo), big.NewInt(1))
		r := new(big.Int).Sub(n, lo)
		r.Mod(r, size)
		r.Add(r, lo)
		return numBig(r)
	}
	t := c.bind("w", "Int", term)
	size := new(big.Int).Add(new(big.Int).Sub(hi, lo), big.NewInt(1))
	var wrapped string
	if lo.Sign() == 0 {
		wrapped = app("mod", t, size.String())
	} else {
		wrapped = add(app("mod", sub(t, numBig(lo)), size.String()), numBig(lo))
	}
	return c.bind("w", "Int", ite(between(numBig(lo), t, numBig(hi)), t, wrapped))
}

func litBig(s string) (*big.Int, bool) {
	neg := false
	if len(s) > 4 && s[:3] == "(- " && s[len(s)-1] == ')' {
		neg = true
		s = s[3 : len(s)-1]
	}
	if s == "" {
		return nil, false
	}
	for _, ch := range s {
		if ch < '0' || ch > '9' {
			return nil, false
		}
	}
	n, ok := new(big.Int).SetString(s, 10)
	if !ok {
		return nil, false
	}
	if neg {
		n.Neg(n)
	}
	return n, true
}

func isUnsigned(t types.Type) bool {
	b, ok := t.Underlying().(*types.Basic)
	return ok && b.Info()&types.IsUnsigned != 0
}

func isInteger(t types.Type) bool {
	b, ok := t.Underlying().(*types.Basic)
	return ok && b.Info()&types.IsInteger != 0
}

func isString(t types.Type) bool {
	b, ok := t.Underlying().(*types.Basic)
	return ok && b.Info()&types.IsString != 0
}

func isFloat(t types.Type) bool {
	b, ok := t.Underlying().(*types.Basic)
	return ok && b.Info()&(types.IsFloat|types.IsComplex) != 0
}

func isBool(t types.Type) bool {
	b, ok := t.Underlying().(*types.Basic)
	return ok && b.Info()&types.IsBoolean != 0
}

// goQuo: truncated division.
func goQuo(a, b string, unsigned bool) string {
	if unsigned {
		return app("div", a, b)
	}
	return ite(ge(a, "0"),
		ite(gt(b, "0"), app("div", a, b), app("-", app("div", a, app("-", b)))),
		ite(gt(b, "0"), app("-", app("div", app("-", a), b)), app("div", app("-", a), app("-", b))))
}

func goRem(a, b string, unsigned bool) string {
	if unsigned {
		return app("mod", a, b)
	}
	// a - b*quo(a,b); sign follows the dividend
	return ite(ge(a, "0"), app("mod", a, app("abs", b)), app("-", app("mod", app("-", a), app("abs", b))))
}

func (f *frame) unop(x *ssa.UnOp, st State, reach string) State {
	c := f.c
	switch x.Op {
	case token.MUL: // load
		if sv, ok := f.s2a[x.X]; ok {
			// *(*[N]T)(slice) with non-zero offset: copy N elements
			at := x.Type().Underlying().(*types.Array)
			sh := shapeOf(x.Type())
			out := make(Val, len(sh))
			for i := range sh {
				el := sh[i].Elem
				mem := "E|" + elemKey(at.Elem()) + "|" + el.Path
				src := c.bind("s2a", arrSort(el.Sort), c.sel(c.heapGet(st.heap, mem, memSort(el.Sort, 2)), sv[0]))
				arr := c.fresh("s2a", sh[i].Sort)
				if at.Len() <= 64 {
					for k := int64(0); k < at.Len(); k++ {
						c.assume(reach, eq(sel(arr, num(k)), c.sel(src, addOff(sv[1], num(k)))))
					}
				} else {
					q := c.qvar()
					c.assume(reach, fmt.Sprintf("(forall ((%s Int)) (! (=> (and (<= 0 %s) (< %s %d)) (= (select %s %s) (select %s (+ %s %s)))) :pattern ((select %s %s))))", q, q, q, at.Len(), arr, q, src, sv[1], q, arr, q))
				}
				out[i] = arr
			}
			f.setVal(x, out)
			return st
		}
		l := f.locOf(x.X)
		if !f.isLocBase(x.X) {
			f.guard(reach, neq(f.get(x.X)[0], "0"), "nil dereference (load)", x)
		}
		v := c.load(st.heap, l)
		c.assumeRanges(v, x.Type(), reach, st.alloc.term())
		// references read from the entry heap denote objects that existed at entry
		sh := shapeOf(x.Type())
		for i := range sh {
			if i < len(v) && sh[i].Kind == KRef && isEntryHeapTerm(v[i]) {
				c.assume(reach, lt(v[i], "|alloc@0|"))
			}
		}
		f.setVal(x, v)
	case token.NOT:
		f.setVal(x, Val{not(f.get(x.X)[0])})
	case token.SUB:
		if isInteger(x.Type()) {
			f.setVal(x, Val{c.wrap(app("-", f.get(x.X)[0]), x.Type())})
		} else {
			f.setVal(x, Val{app(c.uf("fneg", []string{"Flt"}, "Flt"), f.get(x.X)[0])})
		}
	case token.XOR:
		// ^x = -x-1 (signed) or max-x (unsigned)
		v := f.get(x.X)[0]
		if isUnsigned(x.Type()) {
			_, hi := intRange(x.Type().Underlying().(*types.Basic))
			f.setVal(x, Val{sub(numBig(hi), v)})
		} else {
			f.setVal(x, Val{sub(app("-", v), "1")})
		}
	case token.ARROW:
		c.note("chan-recv")
		f.setVal(x, c.freshVal("recv", x.Type(), reach, st.alloc.term()))
	default:
		c.note("unop-" + x.Op.String())
		f.setVal(x, c.freshVal("unop", x.Type(), reach, st.alloc.term()))
	}
	return st
}

func (c *Ctx) uf(name string, args []string, ret string) string {
	return c.declareFun(name, args, ret)
}

// valsEqual builds the equality of two values of type t.
func (c *Ctx) valsEqual(a, b Val, t types.Type) string {
	sh := shapeOf(t)
	switch u := t.Underlying().(type) {
	case *types.Slice:
		// only comparable to nil
		_ = u
		if len(a) == 4 && len(b) == 4 {
			return eq(a[0], b[0])
		}
	case *types.Interface:
		return and(eq(a[0], b[0]), eq(a[1], b[1]))
	}
	var parts []string
	for i := range sh {
		if i >= len(a) || i >= len(b) {
			break
		}
		parts = append(parts, c.leafEqual(a[i], b[i], &sh[i]))
	}
	return and(parts...)
}

func (c *Ctx) leafEqual(a, b string, l *Leaf) string {
	if l.Kind == KArr {
		if l.Len <= 64 {
			var parts []string
			for k := int64(0); k < l.Len; k++ {
				ks := num(k)
				parts = append(parts, c.leafEqual(c.sel(a, ks), c.sel(b, ks), l.Elem))
			}
			return and(parts...)
		}
		q := c.qvar()
		return fmt.Sprintf("(forall ((%s Int)) (=> (and (<= 0 %s) (< %s %d)) %s))", q, q, q, l.Len,
			c.leafEqual(sel(a, q), sel(b, q), l.Elem))
	}
	return eq(a, b)
}

func (c *Ctx) qvar() string {
	c.nfresh++
	return fmt.Sprintf("q!%d", c.nfresh)
}

func (f *frame) binop(x *ssa.BinOp, reach string) Val {
	c := f.c
	xt := x.X.Type()
	a := f.get(x.X)
	b := f.get(x.Y)
	switch x.Op {
	case token.EQL:
		return Val{c.bind("eq", "Bool", c.cmpEqual(f, x.X, x.Y, a, b, xt))}
	case token.NEQ:
		return Val{c.bind("ne", "Bool", not(c.cmpEqual(f, x.X, x.Y, a, b, xt)))}
	}
	if isBool(xt) {
		switch x.Op {
		case token.AND, token.LAND:
			return Val{and(a[0], b[0])}
		case token.OR, token.LOR:
			return Val{or(a[0], b[0])}
		}
	}
	if isInteger(xt) {
		uns := isUnsigned(xt)
		switch x.Op {
		case token.ADD:
			return Val{c.wrap(add(a[0], b[0]), x.Type())}
		case token.SUB:
			return Val{c.wrap(sub(a[0], b[0]), x.Type())}
		case token.MUL:
			return Val{c.wrap(c.mulTerm(a[0], b[0]), x.Type())}
		case token.QUO:
			f.guard(reach, neq(b[0], "0"), "integer divide by zero", x)
			return Val{c.wrap(goQuo(a[0], b[0], uns), x.Type())}
		case token.REM:
			f.guard(reach, neq(b[0], "0"), "integer divide by zero", x)
			return Val{c.bind("rem", "Int", goRem(a[0], b[0], uns))}
		case token.LSS:
			return Val{lt(a[0], b[0])}
		case token.LEQ:
			return Val{le(a[0], b[0])}
		case token.GTR:
			return Val{gt(a[0], b[0])}
		case token.GEQ:
			return Val{ge(a[0], b[0])}
		case token.SHL:
			if n, ok := litInt(b[0]); ok && n >= 0 && n < 256 {
				return Val{c.wrap(mul(a[0], pow2(uint(n)).String()), x.Type())}
			}
			if !isUnsigned(x.Y.Type()) {
				f.guard(reach, ge(b[0], "0"), "negative shift amount", x)
			}
			r := app(c.uf("shl", []string{"Int", "Int"}, "Int"), a[0], b[0])
			c.assume(reach, implies(eq(b[0], "0"), eq(r, a[0])))
			return Val{c.wrap(r, x.Type())}
		case token.SHR:
			if n, ok := litInt(b[0]); ok && n >= 0 && n < 256 {
				return Val{app("div", a[0], pow2(uint(n)).String())}
			}
			if !isUnsigned(x.Y.Type()) {
				f.guard(reach, ge(b[0], "0"), "negative shift amount", x)
			}
			r := c.fresh("shr", "Int")
			ufr := app(c.uf("shr", []string{"Int", "Int"}, "Int"), a[0], b[0])
			c.asserts = append(c.asserts, eq(r, ufr))
			if uns {
				c.assume(reach, and(le("0", r), le(r, a[0])))
			}
			c.assume(reach, implies(eq(b[0], "0"), eq(r, a[0])))
			return Val{r}
		case token.AND:
			return Val{c.bitAnd(a[0], b[0], x.Type(), reach)}
		case token.OR, token.XOR, token.AND_NOT:
			name := map[token.Token]string{token.OR: "bitor", token.XOR: "bitxor", token.AND_NOT: "bitandnot"}[x.Op]
			r := c.fresh(name, "Int")
			c.asserts = append(c.asserts, eq(r, app(c.uf(name, []string{"Int", "Int"}, "Int"), a[0], b[0])))
			lf := shapeOf(x.Type())[0]
			c.assumeLeafRange(r, &lf, reach, "")
			if x.Op == token.OR {
				c.assume(reach, implies(eq(b[0], "0"), eq(r, a[0])))
				c.assume(reach, implies(eq(a[0], "0"), eq(r, b[0])))
				if uns {
					c.assume(reach, and(ge(r, a[0]), ge(r, b[0]), le(r, add(a[0], b[0]))))
				}
			}
			return Val{r}
		}
	}
	if isString(xt) {
		switch x.Op {
		case token.ADD:
			cat := c.uf("strcat", []string{"Str", "Str"}, "Str")
			r := app(cat, a[0], b[0])
			c.assume(sTrue, eq(app("strlen", r), add(app("strlen", a[0]), app("strlen", b[0]))))
			return Val{r}
		case token.LSS, token.LEQ, token.GTR, token.GEQ:
			lt_ := c.uf("strlt", []string{"Str", "Str"}, "Bool")
			switch x.Op {
			case token.LSS:
				return Val{app(lt_, a[0], b[0])}
			case token.GTR:
				return Val{app(lt_, b[0], a[0])}
			case token.LEQ:
				return Val{not(app(lt_, b[0], a[0]))}
			case token.GEQ:
				return Val{not(app(lt_, a[0], b[0]))}
			}
		}
	}
	if isFloat(xt) {
		name := "f" + map[token.Token]string{token.ADD: "add", token.SUB: "sub", token.MUL: "mul", token.QUO: "div",
			token.LSS: "lt", token.LEQ: "le", token.GTR: "gt", token.GEQ: "ge"}[x.Op]
		switch x.Op {
		case token.LSS, token.LEQ, token.GTR, token.GEQ:
			return Val{app(c.uf(name, []string{"Flt", "Flt"}, "Bool"), a[0], b[0])}
		default:
			return Val{app(c.uf(name, []string{"Flt", "Flt"}, "Flt"), a[0], b[0])}
		}
	}
	c.note("binop-" + x.Op.String())
	return c.freshVal("binop", x.Type(), reach, "")
}

func (c *Ctx) bitAnd(a, b string, t types.Type, reach string) string {
	// mask with 2^k-1
	for _, pr := range [][2]string{{a, b}, {b, a}} {
		if n, ok := litBig(pr[1]); ok && n.Sign() >= 0 {
			m := new(big.Int).Add(n, big.NewInt(1))
			if m.BitLen() > 0 && new(big.Int).And(m, n).Sign() == 0 { // n+1 power of two
				if isUnsigned(t) {
					return app("mod", pr[0], m.String())
				}
				return app("mod", pr[0], m.String()) // two's complement: x & (2^k-1) == x mod 2^k for k < width
			}
			if n.Sign() == 0 {
				return "0"
			}
			// contiguous mask 2^hi - 2^lo (e.g. 0xF0): x & mask == (x mod 2^hi) - (x mod 2^lo) for non-negative x
			lo := n.TrailingZeroBits()
			hi := uint(n.BitLen())
			if new(big.Int).Add(n, pow2(lo)).Cmp(pow2(hi)) == 0 && isUnsigned(t) {
				x := c.bind("bx", "Int", pr[0])
				return sub(app("mod", x, pow2(hi).String()), app("mod", x, pow2(lo).String()))
			}
		}
	}
	r := c.fresh("bitand", "Int")
	c.asserts = append(c.asserts, eq(r, app(c.uf("bitand", []string{"Int", "Int"}, "Int"), a, b)))
	if isUnsigned(t) {
		c.assume(reach, and(le("0", r), le(r, a), le(r, b)))
	} else {
		lf := shapeOf(t)[0]
		c.assumeLeafRange(r, &lf, reach, "")
	}
	return r
}

func (c *Ctx) cmpEqual(f *frame, xv, yv ssa.Value, a, b Val, t types.Type) string {
	// pointer comparison with symbolic locations
	if _, ok := t.Underlying().(*types.Pointer); ok {
		_, la := f.locs[xv]
		_, lb := f.locs[yv]
		if la || lb {
			if k, ok := yv.(*ssa.Const); ok && k.Value == nil && la {
				return sFalse
			}
			if k, ok := xv.(*ssa.Const); ok && k.Value == nil && lb {
				return sFalse
			}
			c.note("compare-interior-pointers")
			return c.fresh("ptrcmp", "Bool")
		}
	}
	if it, ok := t.Underlying().(*types.Interface); ok {
		_ = it
		// comparison with the nil interface: the tag decides (tag == 0 implies payload == 0)
		if k, ok := yv.(*ssa.Const); ok && k.Value == nil && len(a) == 2 {
			return eq(a[0], "0")
		}
		if k, ok := xv.(*ssa.Const); ok && k.Value == nil && len(b) == 2 {
			return eq(b[0], "0")
		}
		if len(a) == 2 && len(b) == 2 {
			return and(eq(a[0], b[0]), eq(a[1], b[1]))
		}
	}
	return c.valsEqual(a, b, t)
}

func (f *frame) convert(x *ssa.Convert, st *State, reach string) Val {
	c := f.c
	from := x.X.Type()
	to := x.Type()
	v := f.get(x.X)
	switch {
	case isInteger(from) && isInteger(to):
		fl, fh := intRange(from.Underlying().(*types.Basic))
		tl, th := intRange(to.Underlying().(*types.Basic))
		if fl != nil && tl != nil && fl.Cmp(tl) >= 0 && fh.Cmp(th) <= 0 {
			return v
		}
		return Val{c.wrap(v[0], to)}
	case isInteger(from) && isFloat(to):
		return Val{app(c.uf("i2f", []string{"Int"}, "Flt"), v[0])}
	case isFloat(from) && isInteger(to):
		r := c.fresh("f2i", "Int")
		c.asserts = append(c.asserts, eq(r, app(c.uf("f2i", []string{"Flt"}, "Int"), v[0])))
		lf := shapeOf(to)[0]
		c.assumeLeafRange(r, &lf, reach, "")
		return Val{r}
	case isFloat(from) && isFloat(to):
		return v
	case isString(to):
		// []byte / []rune / int -> string
		if _, ok := from.Underlying().(*types.Slice); ok {
			et := from.Underlying().(*types.Slice).Elem()
			mem := "E|" + elemKey(et) + "|"
			arr := c.sel(c.heapGet(st.heap, mem, memSort("Int", 2)), v[0])
			fn := c.uf("str_of_bytes", []string{arrSort("Int"), "Int", "Int"}, "Str")
			r := app(fn, arr, v[1], v[2])
			if b, ok := et.Underlying().(*types.Basic); ok && b.Kind() == types.Uint8 {
				c.assume(reach, eq(app("strlen", r), v[2]))
			}
			return Val{r}
		}
		return Val{app(c.uf("str_of_int", []string{"Int"}, "Str"), v[0])}
	case isString(from):
		// string -> []byte / []rune
		if sl, ok := to.Underlying().(*types.Slice); ok {
			r := st.alloc.term()
			st.alloc.off++
			ln := c.fresh("slen", "Int")
			if b, ok := sl.Elem().Underlying().(*types.Basic); ok && b.Kind() == types.Uint8 {
				c.asserts = append(c.asserts, eq(ln, app("strlen", v[0])))
				// contents: bytes_of_str(s)
				mem := "E|uint8|"
				ms := memSort("Int", 2)
				bf := c.uf("bytes_of_str", []string{"Str"}, arrSort("Int"))
				st.heap = c.heapUpd(st.heap, mem, ms, sto(c.heapGet(st.heap, mem, ms), r, app(bf, v[0])))
			} else {
				c.assume(reach, and(le("0", ln), le(ln, app("strlen", v[0]))))
			}
			return Val{r, "0", ln, ln}
		}
	}
	if _, ok := to.Underlying().(*types.Pointer); ok {
		return v // unsafe.Pointer conversions
	}
	if b, ok := to.Underlying().(*types.Basic); ok && b.Kind() == types.UnsafePointer {
		return v
	}
	c.note("convert:" + from.String() + "->" + to.String())
	return c.freshVal("conv", to, reach, st.alloc.term())
}

func pointerLike(t types.Type) bool {
	switch t.Underlying().(type) {
	case *types.Pointer, *types.Map, *types.Chan, *types.Signature:
		return true
	case *types.Basic:
		return t.Underlying().(*types.Basic).Kind() == types.UnsafePointer
	}
	return false
}

func (f *frame) makeIface(xv ssa.Value, st *State, reach string) Val {
	c := f.c
	t := xv.Type()
	if _, ok := t.Underlying().(*types.Interface); ok {
		return f.get(xv)
	}
	tag := num(int64(c.eng.typeID(types.TypeString(t, nil))))
	c.eng.typeByID[c.eng.typeID(types.TypeString(t, nil))] = t
	v := f.escape(xv, st, reach)
	if pointerLike(t) {
		return Val{tag, v[0]}
	}
	// box
	r := st.alloc.term()
	st.alloc.off++
	st.heap = c.store(st.heap, locOfRef(r, t), v)
	return Val{tag, r}
}

func (f *frame) typeAssert(x *ssa.TypeAssert, st *State, reach string) {
	c := f.c
	iv := f.get(x.X)
	at := x.AssertedType
	var ok string
	var res Val
	if _, isIface := at.Underlying().(*types.Interface); isIface {
		// assertion to interface: tag must implement; opaque predicate, but true for known implementers
		pred := c.uf("implements|"+types.TypeString(at, nil), []string{"Int"}, "Bool")
		ok = and(neq(iv[0], "0"), app(pred, iv[0]))
		if types.Identical(at.Underlying(), x.X.Type().Underlying()) || types.AssignableTo(x.X.Type(), at) {
			ok = neq(iv[0], "0")
		}
		res = iv
	} else {
		id := c.eng.typeID(types.TypeString(at, nil))
		c.eng.typeByID[id] = at
		ok = eq(iv[0], num(int64(id)))
		if pointerLike(at) {
			res = Val{iv[1]}
		} else {
			res = c.load(st.heap, locOfRef(iv[1], at))
		}
	}
	if x.CommaOk {
		// result is zero value when !ok
		okb := c.bind("tok", "Bool", ok)
		sh := shapeOf(at)
		out := make(Val, 0, len(res)+1)
		for i := range res {
			out = append(out, ite(okb, res[i], zeroLeaf(&sh[i])))
		}
		out = append(out, okb)
		f.setVal(x, out)
	} else {
		f.guard(reach, ok, "type assertion failed", x)
		f.setVal(x, res)
	}
}

func (f *frame) index(x *ssa.Index, st State, reach string) {
	c := f.c
	idx := f.get(x.Index)[0]
	xv := f.get(x.X)
	switch xt := x.X.Type().Underlying().(type) {
	case *types.Array:
		f.guard(reach, and(le("0", idx), lt(idx, num(xt.Len()))), "index out of range", x)
		sh := shapeOf(x.X.Type())
		out := make(Val, len(sh))
		for i := range sh {
			out[i] = c.sel(xv[i], idx)
		}
		c.assumeRanges(out, x.Type(), reach, st.alloc.term())
		f.setVal(x, out)
	case *types.Basic: // string
		f.guard(reach, and(le("0", idx), lt(idx, app("strlen", xv[0]))), "index out of range", x)
		r := c.fresh("strat", "Int")
		c.asserts = append(c.asserts, eq(r, app(c.uf("strat", []string{"Str", "Int"}, "Int"), xv[0], idx)))
		c.assume(reach, between("0", r, "255"))
		f.setVal(x, Val{r})
	default:
		c.note("index-unknown")
		f.setVal(x, c.freshVal("idx", x.Type(), reach, st.alloc.term()))
	}
}

func (f *frame) slice(x *ssa.Slice, st *State, reach string) {
	c := f.c
	var lo, hi, mx string
	if x.Low != nil {
		lo = f.get(x.Low)[0]
	} else {
		lo = "0"
	}
	switch xt := x.X.Type().Underlying().(type) {
	case *types.Slice:
		sv := f.get(x.X)
		if x.High != nil {
			hi = f.get(x.High)[0]
		} else {
			hi = sv[2]
		}
		if x.Max != nil {
			mx = f.get(x.Max)[0]
		} else {
			mx = sv[3]
		}
		f.guard(reach, and(le("0", lo), le(lo, hi), le(hi, mx), le(mx, sv[3])), "slice bounds out of range", x)
		no := sv[1]
		if lo != "0" {
			if no == "0" {
				no = lo
			} else {
				no = add(sv[1], lo)
			}
		}
		f.setVal(x, Val{sv[0], c.bind("so", "Int", no), c.bind("sl", "Int", sub0(hi, lo)), c.bind("sc", "Int", sub0(mx, lo))})
		if n, ok := f.backN[x.X]; ok {
			f.backN[x] = n
		}
	case *types.Pointer:
		at := xt.Elem().Underlying().(*types.Array)
		n := num(at.Len())
		if x.High != nil {
			hi = f.get(x.High)[0]
		} else {
			hi = n
		}
		if x.Max != nil {
			mx = f.get(x.Max)[0]
		} else {
			mx = n
		}
		var p string
		if _, isLoc := f.locs[x.X]; isLoc {
			p = f.escape(x.X, st, reach)[0]
		} else {
			p = f.get(x.X)[0]
			if !f.isLocBase(x.X) {
				f.guard(reach, neq(p, "0"), "nil dereference (slice of array)", x)
			}
		}
		f.guard(reach, and(le("0", lo), le(lo, hi), le(hi, mx), le(mx, n)), "slice bounds out of range", x)
		f.setVal(x, Val{p, lo, c.bind("sl", "Int", sub0(hi, lo)), c.bind("sc", "Int", sub0(mx, lo))})
		f.backN[x] = at.Len()
	case *types.Basic: // string
		sv := f.get(x.X)
		if x.High != nil {
			hi = f.get(x.High)[0]
		} else {
			hi = app("strlen", sv[0])
		}
		f.guard(reach, and(le("0", lo), le(lo, hi), le(hi, app("strlen", sv[0]))), "slice bounds out of range", x)
		r := app(c.uf("substr", []string{"Str", "Int", "Int"}, "Str"), sv[0], lo, hi)
		c.assume(reach, eq(app("strlen", r), sub0(hi, lo)))
		f.setVal(x, Val{r})
	default:
		c.note("slice-unknown")
		f.setVal(x, c.freshVal("slc", x.Type(), reach, st.alloc.term()))
	}
}

func sub0(a, b string) string {
	if b == "0" {
		return a
	}
	na, oka := litInt(a)
	nb, okb := litInt(b)
	if oka && okb {
		return num(na - nb)
	}
	return sub(a, b)
}

// ---------------------------------------------------------------------------
// maps

func mapNames(mt *types.Map) (valMem []string, domMem, lenMem string, ksort string, ok bool) {
	ksh := shapeOf(mt.Key())
	if len(ksh) != 1 {
		// multi-leaf keys (structs): use first leaf only -> unsupported
		return nil, "", "", "", false
	}
	ksort = ksh[0].Sort
	if ksh[0].Kind == KArr {
		ksort = "Int" // array keys are mapped to Int by the uninterpreted function akey (see mapKey)
	}
	key := typeKey(mt.Key()) + "," + elemKey(mt.Elem())
	for _, lf := range shapeOf(mt.Elem()) {
		valMem = append(valMem, "MV|"+key+"|"+lf.Path)
	}
	return valMem, "MD|" + key + "|", "ML|" + key + "|", ksort, true
}

func (c *Ctx) mapInit(h *Heap, r string, mt *types.Map) *Heap {
	vm, dm, lm, ks, ok := mapNames(mt)
	if !ok {
		return h
	}
	ds := "(Array Int (Array " + ks + " Bool))"
	h = c.heapUpd(h, dm, ds, sto(c.heapGet(h, dm, ds), r, "((as const (Array "+ks+" Bool)) false)"))
	ls := "(Array Int Int)"
	h = c.heapUpd(h, lm, ls, sto(c.heapGet(h, lm, ls), r, "0"))
	_ = vm
	return h
}

// mapKey: the SMT key term of a Go map key. Array-typed keys (e.g. [20]byte) are abstracted to
// Int by an uninterpreted function of the array value (cvc5 cannot index arrays by arrays):
// equal arrays give equal keys; the real semantics is one of the admitted interpretations.
func (c *Ctx) mapKey(mt *types.Map, k Val) Val {
	ksh := shapeOf(mt.Key())
	if len(ksh) == 1 && ksh[0].Kind == KArr && len(k) == 1 {
		fn := c.uf("akey|"+ksh[0].Sort, []string{ksh[0].Sort}, "Int")
		if ksh[0].Len <= 64 && ksh[0].Elem.Kind == KInt {
			// canonical form: rebuild the array from its first N elements so that arrays equal on 0..N-1 get the same key
			arr := constArr(ksh[0].Sort, "0")
			for i := int64(0); i < ksh[0].Len; i++ {
				arr = sto(arr, num(i), c.sel(k[0], num(i)))
			}
			return Val{c.bind("akey", "Int", app(fn, arr))}
		}
		return Val{c.bind("akey", "Int", app(fn, k[0]))}
	}
	return k
}

func (c *Ctx) mapLoad(h *Heap, m string, mt *types.Map, k Val) (Val, string) {
	k = c.mapKey(mt, k)
	vm, dm, _, ks, ok := mapNames(mt)
	esh := shapeOf(mt.Elem())
	if !ok {
		c.note("map-compound-key")
		out := make(Val, len(esh))
		for i := range esh {
			out[i] = c.fresh("mapv", esh[i].Sort)
		}
		return out, c.fresh("mapok", "Bool")
	}
	ds := "(Array Int (Array " + ks + " Bool))"
	present := c.sel(c.sel(c.heapGet(h, dm, ds), m), k[0])
	present = c.bind("mok", "Bool", present)
	out := make(Val, len(esh))
	for i := range esh {
		vs := "(Array Int (Array " + ks + " " + esh[i].Sort + "))"
		raw := c.sel(c.sel(c.heapGet(h, vm[i], vs), m), k[0])
		out[i] = ite(present, raw, zeroLeaf(&esh[i]))
	}
	return out, present
}

func (c *Ctx) mapStore(h *Heap, m string, mt *types.Map, k, v Val) *Heap {
	k = c.mapKey(mt, k)
	vm, dm, lm, ks, ok := mapNames(mt)
	if !ok {
		c.note("map-compound-key")
		return h
	}
	esh := shapeOf(mt.Elem())
	ds := "(Array Int (Array " + ks + " Bool))"
	d := c.heapGet(h, dm, ds)
	dmap := c.sel(d, m)
	if len(k[0]) > 64 && c.noBind == 0 {
		k = Val{c.bind("mkey", ks, k[0])}
	}
	present := c.sel(dmap, k[0])
	if len(present) > 64 && c.noBind == 0 {
		present = c.bind("mok", "Bool", present)
	}
	ls := "(Array Int Int)"
	l := c.heapGet(h, lm, ls)
	oldLen := c.sel(l, m)
	if len(oldLen) > 64 && c.noBind == 0 {
		oldLen = c.bind("mlen", "Int", oldLen)
	}
	h = c.heapUpd(h, lm, ls, sto(l, m, ite(present, oldLen, add(oldLen, "1"))))
	h = c.heapUpd(h, dm, ds, sto(d, m, sto(dmap, k[0], sTrue)))
	for i := range esh {
		vs := "(Array Int (Array " + ks + " " + esh[i].Sort + "))"
		a := c.heapGet(h, vm[i], vs)
		h = c.heapUpd(h, vm[i], vs, sto(a, m, sto(c.sel(a, m), k[0], v[i])))
	}
	return h
}

func (c *Ctx) mapDelete(h *Heap, m string, mt *types.Map, k Val) *Heap {
	k = c.mapKey(mt, k)
	_, dm, lm, ks, ok := mapNames(mt)
	if !ok {
		c.note("map-compound-key")
		return h
	}
	ds := "(Array Int (Array " + ks + " Bool))"
	d := c.heapGet(h, dm, ds)
	dmap := c.sel(d, m)
	present := c.sel(dmap, k[0])
	ls := "(Array Int Int)"
	l := c.heapGet(h, lm, ls)
	h = c.heapUpd(h, lm, ls, sto(l, m, ite(present, sub(c.sel(l, m), "1"), c.sel(l, m))))
	h = c.heapUpd(h, dm, ds, sto(d, m, sto(dmap, k[0], sFalse)))
	return h
}

func (c *Ctx) mapLen(h *Heap, m string, mt *types.Map) string {
	_, _, lm, _, ok := mapNames(mt)
	if !ok {
		r := c.fresh("maplen", "Int")
		c.assume(sTrue, le("0", r))
		return r
	}
	return ite(eq(m, "0"), "0", c.sel(c.heapGet(h, lm, "(Array Int Int)"), m))
}

func (f *frame) lookup(x *ssa.Lookup, st State, reach string) {
	c := f.c
	if mt, ok := x.X.Type().Underlying().(*types.Map); ok {
		m := f.get(x.X)[0]
		k := f.get(x.Index)
		v, present := c.mapLoad(st.heap, m, mt, k)
		present = and(neq(m, "0"), present)
		sh := shapeOf(mt.Elem())
		for i := range v {
			v[i] = ite(neq(m, "0"), v[i], zeroLeaf(&sh[i]))
		}
		c.assumeRanges(v, mt.Elem(), reach, st.alloc.term())
		if x.CommaOk {
			f.setVal(x, append(append(Val{}, v...), present))
		} else {
			f.setVal(x, v)
		}
		return
	}
	// string index
	sv := f.get(x.X)
	idx := f.get(x.Index)[0]
	f.guard(reach, and(le("0", idx), lt(idx, app("strlen", sv[0]))), "index out of range", x)
	r := c.fresh("strat", "Int")
	c.asserts = append(c.asserts, eq(r, app(c.uf("strat", []string{"Str", "Int"}, "Int"), sv[0], idx)))
	c.assume(reach, between("0", r, "255"))
	f.setVal(x, Val{r})
}

func (f *frame) next(x *ssa.Next, st State, reach string) {
	c := f.c
	rng, _ := x.Iter.(*ssa.Range)
	tp := x.Type().(*types.Tuple)
	ok := c.fresh("next_ok", "Bool")
	out := Val{ok}
	kt := tp.At(1).Type()
	vt := tp.At(2).Type()
	if rng != nil {
		if mt, isMap := rng.X.Type().Underlying().(*types.Map); isMap {
			m := f.get(rng.X)[0]
			var k Val
			if isInvalid(kt) {
				k = c.freshVal("next_k", mt.Key(), reach, st.alloc.term())
			} else {
				k = c.freshVal("next_k", kt, reach, st.alloc.term())
			}
			v, present := c.mapLoad(st.heap, m, mt, k)
			c.assume(reach, implies(ok, and(neq(m, "0"), present)))
			if !isInvalid(kt) {
				out = append(out, k...)
			} else {
				out = append(out, c.zeroVal(kt)...)
			}
			if !isInvalid(vt) {
				c.assumeRanges(v, vt, reach, st.alloc.term())
				out = append(out, v...)
			} else {
				out = append(out, c.zeroVal(vt)...)
			}
			f.setVal(x, out)
			return
		}
	}
	if !isInvalid(kt) {
		out = append(out, c.freshVal("next_k", kt, reach, st.alloc.term())...)
	} else {
		out = append(out, c.zeroVal(kt)...)
	}
	if !isInvalid(vt) {
		out = append(out, c.freshVal("next_v", vt, reach, st.alloc.term())...)
	} else {
		out = append(out, c.zeroVal(vt)...)
	}
	f.setVal(x, out)
}

func isInvalid(t types.Type) bool {
	b, ok := t.(*types.Basic)
	return ok && b.Kind() == types.Invalid
}

// ---------------------------------------------------------------------------
// defers

func (f *frame) deferInstr(x *ssa.Defer, st State, reach string) State {
	if li := f.inLoop(x.Block()); li {
		f.c.note("defer-in-loop")
	}
	rec := &deferRec{instr: x, flag: reach}
	for _, a := range x.Call.Args {
		rec.args = append(rec.args, f.escape(a, &st, reach))
	}
	rec.fnval = f.get(x.Call.Value)
	f.defers = append(f.defers, rec)
	return st
}

func (f *frame) inLoop(b *ssa.BasicBlock) bool {
	for _, li := range f.loopHdr {
		if li.body[b] {
			return true
		}
	}
	return false
}

func (f *frame) runDefers(x *ssa.RunDefers, st State, reach string) State {
	c := f.c
	for i := len(f.defers) - 1; i >= 0; i-- {
		d := f.defers[i]
		// the defer ran iff its block was reached on this path: its block dominates this
		// point or we use the reach flag conjunction.
		cond := and(reach, d.flag)
		if d.instr.Block().Dominates(x.Block()) {
			cond = reach
		}
		// conditional call: execute under cond, merge with unchanged state
		post := f.callCommon(d.instr, d.args, st, cond, true)
		if cond == reach {
			st = post
		} else {
			conds := []string{d.flag, not(d.flag)}
			st = State{heap: c.heapMerge(conds, []*Heap{post.heap, st.heap}), alloc: c.mergeAlloc(conds, []allocPtr{post.alloc, st.alloc}, reach)}
		}
	}
	return st
}

func (f *frame) havocAll(st State, reach, tag string) State {
	c := f.c
	nh := c.heapHavoc(st.heap, tag, nil)
	na := c.fresh("alloc", "Int")
	c.assume(reach, ge(na, st.alloc.term()))
	return State{heap: nh, alloc: allocPtr{base: na}}
}

var _ = fmt.Sprintf

// mulTerm: product of two integer terms. Products of two symbolic terms are abstracted by an
// uninterpreted function (with commutativity and unit/zero instances) unless the contract
// asks for nonlinear arithmetic; this keeps queries in linear arithmetic + UF.
func (c *Ctx) mulTerm(a, b string) string {
	if _, ok := litBig(a); ok {
		return mul(a, b)
	}
	if _, ok := litBig(b); ok {
		return mul(a, b)
	}
	if c.nonlinear {
		return mul(a, b)
	}
	fn := c.uf("mulu", []string{"Int", "Int"}, "Int")
	key := a + "*" + b
	if r, ok := c.mulMemo[key]; ok {
		return r
	}
	ab := c.bind("mu", "Int", a)
	bb := c.bind("mu", "Int", b)
	r := app(fn, ab, bb)
	c.asserts = append(c.asserts, and(eq(r, app(fn, bb, ab)),
		implies(eq(ab, "0"), eq(r, "0")), implies(eq(bb, "0"), eq(r, "0")),
		implies(eq(ab, "1"), eq(r, bb)), implies(eq(bb, "1"), eq(r, ab)),
		implies(and(ge(ab, "0"), ge(bb, "0")), ge(r, "0")),
		implies(and(ge(ab, "1"), ge(bb, "1")), and(ge(r, ab), ge(r, bb)))))
	c.mulMemo[key] = r
	return r
}

// isEntryHeapTerm: the term reads only entry-state memory arrays (names ending in @0).
func isEntryHeapTerm(t string) bool {
	if !strings.HasPrefix(t, "(select ") || !strings.Contains(t, "@0|") {
		return false
	}
	for _, bad := range []string{"|h!", "|hm!", "@call_", "@loop", "@ct_", "@builtin", "@select", "@append", "|ext_", "|phi!", "|lp_"} {
		if strings.Contains(t, bad) {
			return false
		}
	}
	return true
}
