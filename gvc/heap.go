package main

// Lazy persistent heap: a heap is a mapping from memory-array names to SMT
// terms. Arrays are materialised on first access only, so a function that
// touches three fields pays for three arrays no matter how large the program's
// type universe is.

import (
	"fmt"
	"sort"
	"strings"
)

const privMem = "P|priv"
const privSort = "(Array Int Bool)"

type heapKind int

const (
	hEntry heapKind = iota
	hUpd
	hHavoc
	hMerge
)

type Heap struct {
	id     int
	kind   heapKind
	parent *Heap
	name   string // hUpd: which array
	term   string // hUpd: new term
	// hHavoc: keep == nil means everything is havocked; otherwise arrays for
	// which keep(name) is true are inherited from parent.
	keep func(name string) bool
	tag  string
	// hMerge
	conds []string
	srcs  []*Heap
	memo  map[string]string
	depth int
}

type heapArena struct {
	n int
}

func (c *Ctx) newHeap(k heapKind) *Heap {
	c.heapN++
	return &Heap{id: c.heapN, kind: k, memo: map[string]string{}}
}

func (c *Ctx) entryHeap() *Heap { return c.newHeap(hEntry) }

func (c *Ctx) heapUpd(h *Heap, name, sort_, term string) *Heap {
	// bind large terms to a constant to keep the encoding linear
	t := c.bind("h", sort_, term)
	n := c.newHeap(hUpd)
	n.parent = h
	n.name = name
	n.term = t
	n.depth = h.depth + 1
	c.memSorts[name] = sort_
	// path compression: every 64 updates, snapshot known arrays
	return n
}

func (c *Ctx) heapHavoc(h *Heap, tag string, keep func(string) bool) *Heap {
	n := c.newHeap(hHavoc)
	n.parent = h
	n.keep = keep
	n.tag = tag
	return n
}

func (c *Ctx) heapMerge(conds []string, srcs []*Heap) *Heap {
	if len(srcs) == 1 {
		return srcs[0]
	}
	same := true
	for _, s := range srcs[1:] {
		if s != srcs[0] {
			same = false
		}
	}
	if same {
		return srcs[0]
	}
	n := c.newHeap(hMerge)
	n.conds = conds
	n.srcs = srcs
	return n
}

// get returns the current term of memory array `name` (sort `sort_`).
func (c *Ctx) heapGet(h *Heap, name, sort_ string) string {
	c.memSorts[name] = sort_
	// iterative walk for update chains
	var chain []*Heap
	cur := h
	for {
		if t, ok := cur.memo[name]; ok {
			for _, x := range chain {
				x.memo[name] = t
			}
			return t
		}
		if cur.kind == hUpd {
			if cur.name == name {
				t := cur.term
				for _, x := range chain {
					x.memo[name] = t
				}
				cur.memo[name] = t
				return t
			}
			chain = append(chain, cur)
			cur = cur.parent
			continue
		}
		if cur.kind == hHavoc && (strings.HasPrefix(name, "P|") || (cur.keep != nil && cur.keep(name))) {
			// P| arrays are bookkeeping of the verifier (privacy of local objects): never havocked
			chain = append(chain, cur)
			cur = cur.parent
			continue
		}
		break
	}
	var t string
	switch cur.kind {
	case hEntry:
		if name == privMem {
			t = "((as const (Array Int Bool)) false)"
		} else {
			t = c.declare(fmt.Sprintf("%s@0", name), sort_)
		}
	case hHavoc:
		t = c.declare(fmt.Sprintf("%s@%s%d", name, cur.tag, cur.id), sort_)
	case hMerge:
		terms := make([]string, len(cur.srcs))
		allSame := true
		for i, s := range cur.srcs {
			terms[i] = c.heapGet(s, name, sort_)
			if terms[i] != terms[0] {
				allSame = false
			}
		}
		if allSame {
			t = terms[0]
		} else {
			t = terms[len(terms)-1]
			for i := len(terms) - 2; i >= 0; i-- {
				t = ite(cur.conds[i], terms[i], t)
			}
			t = c.bind("hm", sort_, t)
		}
	}
	cur.memo[name] = t
	for _, x := range chain {
		x.memo[name] = t
	}
	return t
}

// touched returns the names of all arrays known to the context (sorted).
func (c *Ctx) knownArrays() []string {
	var out []string
	for k := range c.memSorts {
		out = append(out, k)
	}
	sort.Strings(out)
	return out
}
