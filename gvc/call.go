package main

import (
	"os"
	"fmt"
	"go/types"
	"strings"

	"golang.org/x/tools/go/ssa"
)

const (
	maxInlineDepth  = 5
	maxInlineBlocks = 60
)

func (f *frame) call(x *ssa.Call, st State, reach string) State {
	var args []Val
	com := x.Common()
	for _, a := range com.Args {
		args = append(args, f.escape(a, &st, reach))
	}
	nmat := len(f.matz)
	_ = nmat
	st = f.callCommon(x, args, st, reach, false)
	return st
}

// copyBack: after a call, contents of materialised interior pointers passed as
// arguments are copied back into their home locations.
func (f *frame) copyBack(com *ssa.CallCommon, st State) State {
	c := f.c
	for _, a := range com.Args {
		for _, m := range f.matz {
			if m.v == a {
				st.heap = c.store(st.heap, m.from, c.load(st.heap, m.to))
			}
		}
	}
	if com.IsInvoke() {
		return st
	}
	return st
}

func (f *frame) setResult(x ssa.CallInstruction, v Val) {
	if val, ok := x.(ssa.Value); ok {
		f.setVal(val, v)
	}
}

func (f *frame) callCommon(x ssa.CallInstruction, args []Val, st State, reach string, deferred bool) State {
	c := f.c
	com := x.Common()
	var resT types.Type = com.Signature().Results()
	if com.Signature().Results().Len() == 1 {
		resT = com.Signature().Results().At(0).Type()
	}
	// builtins
	if b, ok := com.Value.(*ssa.Builtin); ok {
		return f.builtin(x, b, args, st, reach)
	}
	var callee *ssa.Function
	var recvArgs []Val = args
	if com.IsInvoke() {
		iv := f.get(com.Value)
		f.guard(reach, neq(iv[0], "0"), "nil interface method call", x)
		// interface contract?
		if ic := c.eng.ifaceContract(com.Value.Type(), com.Method.Name()); ic != nil {
			full := append([]Val{iv}, args...)
			res, nst := f.applyContract(ic, nil, full, st, reach, x)
			f.setResult(x, res)
			return nst
		}
		// devirtualise on literal tag
		if id, ok := litInt(iv[0]); ok {
			if t, ok := c.eng.typeByID[int(id)]; ok {
				sel := c.eng.prog.MethodSets.MethodSet(t).Lookup(com.Method.Pkg(), com.Method.Name())
				if sel != nil {
					callee = c.eng.prog.MethodValue(sel)
					var recv Val
					if pointerLike(t) {
						recv = Val{iv[1]}
					} else {
						recv = c.load(st.heap, locOfRef(iv[1], t))
					}
					recvArgs = append([]Val{recv}, args...)
				}
			}
		}
		if callee == nil {
			return f.invokeSplit(x, iv, args, st, reach, resT)
		}
	} else {
		switch v := com.Value.(type) {
		case *ssa.Function:
			callee = v
		case *ssa.MakeClosure:
			callee = v.Fn.(*ssa.Function)
		default:
			// function value: contract by function type?
			if fc := c.eng.funcTypeContract(com.Value.Type()); fc != nil {
				full := append([]Val{f.get(com.Value)}, args...)
				res, nst := f.applyContract(fc, nil, full, st, reach, x)
				f.setResult(x, res)
				return nst
			}
			c.note("dynamic-call")
			return f.callHavocT(x, nil, st, reach, resT, nil)
		}
	}
	return f.callStatic(x, callee, recvArgs, st, reach, resT)
}

func (f *frame) callStatic(x ssa.CallInstruction, callee *ssa.Function, args []Val, st State, reach string, resT types.Type) State {
	c := f.c
	com := x.Common()
	if callee.Synthetic == "package initializer" {
		// another package's initialiser: its effects are summarised by that package's global facts
		return st
	}
	if f.top && f.contract != nil && f.contract.CallReq != nil && !f.specMode {
		if reqs := f.contract.CallReq[callee.Name()]; len(reqs) > 0 {
			f.callSiteRequires(x, callee, reqs, args, st, reach)
		}
	}
	// 1. contract
	if ct := c.eng.contractOf(callee); ct != nil && !(f.top && callee == f.fn && false) {
		res, nst := f.applyContract(ct, callee, args, st, reach, x)
		f.setResult(x, res)
		return f.copyBack(com, nst)
	}
	// 2. model
	if m := lookupModel(callee); m != nil {
		res, nst, ok := m.apply(f, callee, args, st, reach, x)
		if ok {
			f.setResult(x, res)
			if v, isVal := x.(ssa.Value); isVal && len(m.allocs) > 0 && len(res) == 1 && rootOf(v, 0) == -2 {
				var esc []ssa.Instruction
				if !collectEscapes(v, 0, &esc) {
					nst.heap = f.markPrivate(v, res[0], esc, nst.heap)
				}
			}
			return f.copyBack(com, nst)
		}
	}
	// 3. inline
	if f.canInline(callee) {
		var bindings []Val
		if mc, ok := com.Value.(*ssa.MakeClosure); ok {
			for _, b := range mc.Bindings {
				bindings = append(bindings, f.get(b))
			}
		}
		res, nst, ok := f.inline(callee, args, bindings, st, reach)
		if ok {
			f.setResult(x, res)
			return f.copyBack(com, nst)
		}
	}
	// 4. havoc with inferred frame
	nst := f.callHavocT(x, callee, st, reach, resT, args)
	return f.copyBack(com, nst)
}

func (f *frame) canInline(callee *ssa.Function) bool {
	if callee == nil || len(callee.Blocks) == 0 {
		return false
	}
	if f.depth >= maxInlineDepth {
		return false
	}
	if len(callee.Blocks) > maxInlineBlocks {
		return false
	}
	for _, s := range f.stack {
		if s == callee {
			return false
		}
	}
	if f.c.eng.noInline[callee.String()] {
		return false
	}
	// inside very large functions only tiny helpers are inlined (query size)
	if len(f.stack) > 0 && len(f.stack[0].Blocks) > 80 {
		if len(callee.Blocks) > 8 || (f.depth >= 2 && (len(callee.Blocks) > 3 || f.depth >= 4)) {
			return false
		}
	}
	if len(callee.Blocks) > 3 {
		// budget for the total amount of inlined code per function under verification;
		// straight-line accessors are always inlined (specs read fields through them)
		f.c.inlinedBlocks += len(callee.Blocks)
		if f.c.inlinedBlocks > 3000 {
			return false
		}
	}
	// no loops in inlined bodies unless small
	for _, b := range callee.Blocks {
		for _, s := range b.Succs {
			if s.Dominates(b) {
				if len(callee.Blocks) > 12 {
					return false
				}
			}
		}
		for _, in := range b.Instrs {
			switch in.(type) {
			case *ssa.Go, *ssa.Select:
				return false
			}
		}
	}
	return true
}

func (f *frame) inline(callee *ssa.Function, args []Val, bindings []Val, st State, reach string) (Val, State, bool) {
	c := f.c
	nf := c.newFrame(callee, f.depth+1, f.stack)
	nf.safety = f.safety
	for i, fv := range callee.FreeVars {
		if i < len(bindings) {
			nf.vals[fv] = bindings[i]
		}
	}
	nf.run(args, st, reach)
	f.panics = append(f.panics, nf.panics...)
	if len(nf.exits) == 0 {
		// never returns (always panics): the rest of the path is unreachable
		c.assume(reach, sFalse)
		var resT types.Type = callee.Signature.Results()
		return c.zeroVal(resT), st, true
	}
	var conds []string
	var heaps []*Heap
	var allocs []allocPtr
	var vals []Val
	for _, e := range nf.exits {
		conds = append(conds, e.cond)
		heaps = append(heaps, e.st.heap)
		allocs = append(allocs, e.st.alloc)
		vals = append(vals, e.results)
	}
	// the call returns: one of the exits was taken
	c.assume(reach, or(conds...))
	var resT types.Type = callee.Signature.Results()
	res := c.mergeVals(conds, vals, resT)
	nst := State{heap: c.heapMerge(conds, heaps), alloc: c.mergeAlloc(conds, allocs, reach)}
	return res, nst, true
}

// invokeSplit: interface call with unknown dynamic type. Case split over the
// implementations found in the loaded program when they are few; otherwise havoc.
func (f *frame) invokeSplit(x ssa.CallInstruction, iv Val, args []Val, st State, reach string, resT types.Type) State {
	c := f.c
	com := x.Common()
	impls := c.eng.implementations(com.Value.Type(), com.Method)
	if len(impls) == 0 || len(impls) > 4 {
		return f.callHavocT(x, nil, st, reach, resT, args)
	}
	type branch struct {
		cond string
		res  Val
		st   State
	}
	var brs []branch
	var tagConds []string
	for _, impl := range impls {
		recvT := impl.Signature.Recv().Type()
		id := c.eng.typeID(types.TypeString(recvT, nil))
		c.eng.typeByID[id] = recvT
		tc := eq(iv[0], num(int64(id)))
		// value-receiver methods are also callable through pointer dynamic types
		var recv Val
		if pointerLike(recvT) {
			recv = Val{iv[1]}
		} else {
			recv = c.load(st.heap, locOfRef(iv[1], recvT))
			// also pointer-to-T dynamic type
			pid := c.eng.typeID(types.TypeString(types.NewPointer(recvT), nil))
			c.eng.typeByID[pid] = types.NewPointer(recvT)
			_ = pid
		}
		cond := c.bind("dv", "Bool", and(reach, tc))
		sub := f.subFrameCall(x, impl, append([]Val{recv}, args...), st, cond, resT)
		brs = append(brs, branch{cond: tc, res: sub.res, st: sub.st})
		tagConds = append(tagConds, tc)
	}
	// other dynamic types
	other := c.bind("dvo", "Bool", and(reach, not(or(tagConds...))))
	hst := f.callHavocRes(x, nil, st, other, resT, args)
	conds := append([]string{}, tagConds...)
	conds = append(conds, sTrue)
	var heaps []*Heap
	var allocs []allocPtr
	var vals []Val
	for _, b := range brs {
		heaps = append(heaps, b.st.heap)
		allocs = append(allocs, b.st.alloc)
		vals = append(vals, b.res)
	}
	heaps = append(heaps, hst.st.heap)
	allocs = append(allocs, hst.st.alloc)
	vals = append(vals, hst.res)
	res := c.mergeVals(conds, vals, resT)
	f.setResult(x, res)
	return State{heap: c.heapMerge(conds, heaps), alloc: c.mergeAlloc(conds, allocs, reach)}
}

type callOut struct {
	res Val
	st  State
}

// subFrameCall performs a static call and returns result and state without binding the result.
func (f *frame) subFrameCall(x ssa.CallInstruction, callee *ssa.Function, args []Val, st State, reach string, resT types.Type) callOut {
	c := f.c
	if ct := c.eng.contractOf(callee); ct != nil {
		res, nst := f.applyContract(ct, callee, args, st, reach, x)
		return callOut{res, nst}
	}
	if m := lookupModel(callee); m != nil {
		res, nst, ok := m.apply(f, callee, args, st, reach, x)
		if ok {
			return callOut{res, nst}
		}
	}
	if f.canInline(callee) {
		res, nst, ok := f.inline(callee, args, nil, st, reach)
		if ok {
			return callOut{res, nst}
		}
	}
	return f.callHavocRes(x, callee, st, reach, resT, args)
}

func (f *frame) callHavoc(x ssa.CallInstruction, st State, reach string, callee *ssa.Function) State {
	var resT types.Type = x.Common().Signature().Results()
	return f.callHavocT(x, callee, st, reach, resT, nil)
}

func (f *frame) callHavocT(x ssa.CallInstruction, callee *ssa.Function, st State, reach string, resT types.Type, args []Val) State {
	out := f.callHavocRes(x, callee, st, reach, resT, args)
	f.setResult(x, out.res)
	return out.st
}

// callHavocRes: unknown effect within the inferred frame.
func (f *frame) callHavocRes(x ssa.CallInstruction, callee *ssa.Function, st State, reach string, resT types.Type, args []Val) callOut {
	c := f.c
	if callee != nil && len(callee.Blocks) == 0 && args != nil {
		return f.externalCall(x, callee, st, reach, resT, args)
	}
	ms := newModSet()
	if callee != nil {
		ms.union(c.eng.summaryOf(callee).mods)
	} else {
		tmp := &fnSummary{mods: newModSet()}
		c.eng.callMods(x, tmp, map[*ssa.Function]bool{})
		ms.union(tmp.mods)
		for _, cal := range tmp.callees {
			ms.union(c.eng.summaryOf(cal).mods)
		}
	}
	name := "dyn"
	if callee != nil {
		name = callee.Name()
	} else if x.Common().IsInvoke() {
		name = x.Common().Method.Name()
	}
	if ms.top {
		c.note("havoc-all:" + name)
	}
	if os.Getenv("GVC_TRACE_MODS") != "" {
		pos := ""
		if si, ok := x.(ssa.Instruction); ok {
			pos = c.eng.prog.Fset.Position(si.Pos()).String()
		}
		fmt.Fprintf(os.Stderr, "MODS %s %s top=%v %v pats=%v\n", pos, name, ms.top, ms.list(), ms.pats)
	}
	var keep func(string) bool
	if !ms.top {
		if len(ms.m) == 0 && len(ms.pats) == 0 {
			keep = func(string) bool { return true }
		} else {
			keep = func(n string) bool { return !ms.has(n) }
		}
	}
	nh := st.heap
	if keep == nil || len(ms.m) > 0 || len(ms.pats) > 0 {
		nh = c.heapHavoc(st.heap, "call_"+sanitize(name), keep)
		nh = c.restoreGlobals(st.heap, nh, ms)
		{
			var siteInstr ssa.Instruction
			if si, ok := x.(ssa.Instruction); ok {
				siteInstr = si
			}
			nh = f.restoreLocals(st.heap, nh, siteInstr)
		}
	}
	na := c.fresh("alloc", "Int")
	c.assume(reach, ge(na, st.alloc.term()))
	nst := State{heap: nh, alloc: allocPtr{base: na}}
	var res Val
	// deterministic result for callees with empty mod-set: uninterpreted function of
	// the arguments (scalar results only) and of a heap token
	if callee != nil && !ms.top && len(ms.m) == 0 && len(ms.pats) == 0 && args != nil && c.eng.detResult(callee) {
		res = c.ufResult(callee, args, resT, reach, st, na)
	} else {
		res = c.freshVal("ret_"+sanitize(name), resT, reach, na)
	}
	c.stats.havocCalls++
	return callOut{res, nst}
}

// ufResult: result leaves as uninterpreted functions of the argument leaves.
// Reference-typed result leaves stay fresh (allocation identity is not a function of the arguments).
func (c *Ctx) ufResult(callee *ssa.Function, args []Val, resT types.Type, reach string, st State, alloc string) Val {
	sh := shapeOf(resT)
	var argTerms, argSorts []string
	i := 0
	sig := callee.Signature
	var ptypes []types.Type
	if sig.Recv() != nil {
		ptypes = append(ptypes, sig.Recv().Type())
	}
	for j := 0; j < sig.Params().Len(); j++ {
		ptypes = append(ptypes, sig.Params().At(j).Type())
	}
	for ai, a := range args {
		var ash []Leaf
		if ai < len(ptypes) {
			ash = shapeOf(ptypes[ai])
		}
		for li, t := range a {
			s := "Int"
			if li < len(ash) {
				s = ash[li].Sort
			}
			argTerms = append(argTerms, t)
			argSorts = append(argSorts, s)
		}
		i++
	}
	// the result may also depend on memory: include a token that changes with every heap version
	out := make(Val, len(sh))
	for k := range sh {
		if sh[k].Kind == KRef || len(argTerms) == 0 {
			out[k] = c.fresh("ret_"+sanitize(callee.Name())+sh[k].Path, sh[k].Sort)
			continue
		}
		fn := c.uf(fmt.Sprintf("fn|%s|%d", callee.String(), k), append(append([]string{}, argSorts...), "Int"), sh[k].Sort)
		out[k] = c.bind("uf", sh[k].Sort, app(fn, append(append([]string{}, argTerms...), c.heapToken(st.heap))...))
	}
	c.assumeRanges(out, resT, reach, alloc)
	return out
}

// heapToken: an integer identifying the heap version (equal tokens => equal heaps).
func (c *Ctx) heapToken(h *Heap) string {
	return num(int64(h.id))
}

// ---------------------------------------------------------------------------
// builtins

func (f *frame) builtin(x ssa.CallInstruction, b *ssa.Builtin, args []Val, st State, reach string) State {
	c := f.c
	com := x.Common()
	switch b.Name() {
	case "len", "cap":
		a := args[0]
		var r string
		switch t := com.Args[0].Type().Underlying().(type) {
		case *types.Slice:
			if b.Name() == "len" {
				r = a[2]
			} else {
				r = a[3]
			}
		case *types.Basic:
			r = app("strlen", a[0])
		case *types.Map:
			r = c.mapLen(st.heap, a[0], t)
			c.assume(reach, le("0", r))
		case *types.Array:
			r = num(t.Len())
		case *types.Pointer:
			r = num(t.Elem().Underlying().(*types.Array).Len())
		case *types.Chan:
			r = c.fresh("chanlen", "Int")
			c.assume(reach, le("0", r))
		default:
			r = c.fresh("len", "Int")
		}
		f.setResult(x, Val{r})
		return st
	case "append":
		return f.appendBuiltin(x, args, st, reach)
	case "copy":
		return f.copyBuiltin(x, args, st, reach)
	case "delete":
		mt := com.Args[0].Type().Underlying().(*types.Map)
		st.heap = c.mapDelete(st.heap, args[0][0], mt, args[1])
		return st
	case "min", "max":
		r := args[0][0]
		for _, a := range args[1:] {
			if b.Name() == "min" {
				r = ite(lt(a[0], r), a[0], r)
			} else {
				r = ite(gt(a[0], r), a[0], r)
			}
		}
		f.setResult(x, Val{r})
		return st
	case "print", "println", "close":
		return st
	case "recover":
		c.note("recover")
		f.setResult(x, Val{"0", "0"})
		return st
	case "ssa:wrapnilchk":
		f.guard(reach, neq(args[0][0], "0"), "nil receiver in wrapper", x)
		f.setResult(x, args[0])
		return st
	}
	c.note("builtin-" + b.Name())
	var resT types.Type = com.Signature().Results()
	if v, ok := x.(ssa.Value); ok {
		resT = v.Type()
	}
	if b.Name() == "clear" {
		st = f.havocAll(st, reach, "builtin")
	}
	f.setResult(x, c.freshVal("bi", resT, reach, st.alloc.term()))
	return st
}

func (f *frame) staticBackN(v ssa.Value) (int64, bool) {
	n, ok := f.backN[v]
	return n, ok
}

func (f *frame) appendBuiltin(x ssa.CallInstruction, args []Val, st State, reach string) State {
	c := f.c
	com := x.Common()
	s := args[0]
	t := args[1]
	slT, ok := com.Args[0].Type().Underlying().(*types.Slice)
	if !ok {
		c.note("append-non-slice")
		f.setResult(x, c.freshVal("app", com.Args[0].Type(), reach, st.alloc.term()))
		return st
	}
	et := slT.Elem()
	// append(s, string...) : bytes from string
	if isString(com.Args[1].Type()) {
		r := st.alloc.term()
		st.alloc.off++
		nl := c.bind("al", "Int", add(s[2], app("strlen", t[0])))
		ncap := c.fresh("acap", "Int")
		c.assume(reach, ge(ncap, nl))
		st.heap = c.heapHavoc(st.heap, "appendstr", func(n string) bool { return n != "E|uint8|" })
		f.setResult(x, Val{r, "0", nl, ncap})
		return st
	}
	r := st.alloc.term()
	st.alloc.off++
	nl := c.bind("al", "Int", add(s[2], t[2]))
	ncap := c.fresh("acap", "Int")
	c.assume(reach, and(ge(ncap, nl), le(ncap, "281474976710656")))
	// statically single element?
	single := false
	if n, ok := f.staticBackN(com.Args[1]); ok && n == 1 && t[1] == "0" {
		if ln, ok := litInt(t[2]); ok && ln == 1 {
			single = true
		}
	}
	if k, ok := com.Args[1].(*ssa.Const); ok && k.Value == nil {
		// append(s, nil...) : copy
		_ = k
	}
	// The result keeps the offset of s inside a fresh backing array that starts as a copy of
	// the whole old backing array (cells outside the window are irrelevant).
	end := c.bind("aend", "Int", addOff(s[1], s[2]))
	for _, lf := range shapeOf(et) {
		mem := "E|" + elemKey(et) + "|" + lf.Path
		ms := memSort(lf.Sort, 2)
		E := c.heapGet(st.heap, mem, ms)
		as := arrSort(lf.Sort)
		srcArr := c.bind("asrc", as, ite(eq(s[0], "0"), constArr(as, zeroLeaf(&lf)), c.sel(E, s[0])))
		var newArr string
		if single {
			el := c.sel(c.sel(E, t[0]), "0")
			newArr = sto(srcArr, end, el)
		} else if t[2] == "0" {
			newArr = srcArr
		} else {
			newArr = c.fresh("apparr", as)
			q := c.qvar()
			tArr := c.bind("atarr", as, c.sel(E, t[0]))
			tl, to := t[2], t[1]
			def := func(i string) string {
				return ite(and(le(end, i), lt(i, add(end, tl))), c.sel(tArr, addOff(to, sub0(i, end))), c.sel(srcArr, i))
			}
			c.lazyArr[newArr] = def
			if c.quant {
				c.noBind++
				dq := def(q)
				c.noBind--
				c.assume(reach, fmt.Sprintf("(forall ((%s Int)) (! %s :pattern ((select %s %s))))", q, eq(sel(newArr, q), dq), newArr, q))
				c.stats.quantified++
			}
		}
		st.heap = c.heapUpd(st.heap, mem, ms, sto(E, r, newArr))
	}
	f.setResult(x, Val{r, s[1], nl, c.bind("acap", "Int", ncap)})
	return st
}

func unusedAppendTail(f *frame, x ssa.CallInstruction, r, nl, ncap string, st State) State {
	f.setResult(x, Val{r, "0", nl, ncap})
	if v, ok := x.(ssa.Value); ok {
		_ = v
	}
	return st
}

func (f *frame) copyBuiltin(x ssa.CallInstruction, args []Val, st State, reach string) State {
	c := f.c
	com := x.Common()
	d := args[0]
	s := args[1]
	slT, ok := com.Args[0].Type().Underlying().(*types.Slice)
	if !ok {
		c.note("copy-non-slice")
		return st
	}
	et := slT.Elem()
	var srcLen string
	srcIsString := isString(com.Args[1].Type())
	if srcIsString {
		srcLen = app("strlen", s[0])
	} else {
		srcLen = s[2]
	}
	n := c.bind("cpn", "Int", ite(lt(d[2], srcLen), d[2], srcLen))
	f.setResult(x, Val{n})
	for _, lf := range shapeOf(et) {
		mem := "E|" + elemKey(et) + "|" + lf.Path
		ms := memSort(lf.Sort, 2)
		E := c.heapGet(st.heap, mem, ms)
		dArr := c.sel(E, d[0])
		var srcAt func(i string) string
		if srcIsString {
			bf := c.uf("bytes_of_str", []string{"Str"}, arrSort("Int"))
			sa := app(bf, s[0])
			srcAt = func(i string) string { return sel(sa, i) }
		} else {
			sArr := c.bind("cps", arrSort(lf.Sort), c.sel(E, s[0]))
			srcAt = func(i string) string { return c.sel(sArr, addOff(s[1], i)) }
		}
		dArrB := c.bind("cpd", arrSort(lf.Sort), dArr)
		var newArr string
		if mk, ok := com.Args[0].(*ssa.MakeSlice); ok && !srcIsString && mk.Len == mk.Cap && d[1] == "0" && s[1] == "0" && d[2] == s[2] && f.stillFresh(mk, x) {
			// idiom make([]T, len(src)); copy(dst, src): the whole (unshared) destination equals the source
			newArr = c.sel(E, s[0])
		} else if N, ok := f.staticBackN(com.Args[0]); ok && N <= 64 {
			// pointwise over the static backing array
			newArr = dArrB
			do := c.bind("cpo", "Int", d[1])
			for k := int64(0); k < N; k++ {
				ks := num(k)
				inr := and(le(do, ks), lt(ks, add(do, n)))
				newArr = sto(newArr, ks, ite(inr, srcAt(sub(ks, do)), c.sel(dArrB, ks)))
			}
		} else {
			newArr = c.fresh("cparr", arrSort(lf.Sort))
			q := c.qvar()
			do := d[1]
			def := func(i string) string {
				return ite(and(le(do, i), lt(i, add(do, n))), srcAt(sub0(i, do)), c.sel(dArrB, i))
			}
			c.lazyArr[newArr] = def
			if c.quant {
				c.noBind++
				dq := def(q)
				c.noBind--
				c.assume(reach, fmt.Sprintf("(forall ((%s Int)) (! %s :pattern ((select %s %s))))", q, eq(sel(newArr, q), dq), newArr, q))
				c.stats.quantified++
			}
		}
		st.heap = c.heapUpd(st.heap, mem, ms, sto(E, d[0], newArr))
	}
	return st
}

func addOff(off, i string) string {
	if off == "0" {
		return i
	}
	if i == "0" {
		return off
	}
	return add(off, i)
}

var _ = strings.HasPrefix

// externalCall: a body-less callee without model. Assumption (listed in evidence): it
// writes only memory reachable from its pointer / slice / map arguments (shallow), so
// only those cells are havocked, not the whole arrays.
func (f *frame) externalCall(x ssa.CallInstruction, callee *ssa.Function, st State, reach string, resT types.Type, args []Val) callOut {
	c := f.c
	name := callee.Name()
	ptypes := paramTypes(callee.Signature)
	pure := isKnownPureExternal(callee)
	if os.Getenv("GVC_TRACE_MODS") != "" {
		pos := ""
		if si, ok := x.(ssa.Instruction); ok {
			pos = c.eng.prog.Fset.Position(si.Pos()).String()
		}
		fmt.Fprintf(os.Stderr, "MODS external %s %s pure=%v\n", pos, callee.String(), pure)
	}
	if !pure {
		for i, a := range args {
			if i >= len(ptypes) {
				break
			}
			switch u := ptypes[i].Underlying().(type) {
			case *types.Pointer:
				l := locOfRef(a[0], u.Elem())
				fv := make(Val, len(l.accs))
				for k, acc := range l.accs {
					fv[k] = c.fresh("ext_"+sanitize(name), acc.leaf.Sort)
				}
				c.assumeRanges(fv, u.Elem(), reach, "")
				st.heap = c.store(st.heap, l, fv)
			case *types.Slice:
				for _, lf := range shapeOf(u.Elem()) {
					mem := "E|" + elemKey(u.Elem()) + "|" + lf.Path
					ms := memSort(lf.Sort, 2)
					E := c.heapGet(st.heap, mem, ms)
					st.heap = c.heapUpd(st.heap, mem, ms, sto(E, a[0], c.fresh("ext_"+sanitize(name), arrSort(lf.Sort))))
				}
			case *types.Map:
				for _, n := range mapMems(u) {
					srt, ok := c.memSorts[n]
					if !ok {
						continue
					}
					args2 := sexprArgs(srt)
					if len(args2) == 2 {
						A := c.heapGet(st.heap, n, srt)
						st.heap = c.heapUpd(st.heap, n, srt, sto(A, a[0], c.fresh("ext_"+sanitize(name), args2[1])))
					}
				}
			case *types.Interface:
				// an interface argument may carry a pointer the callee writes through (proto.Unmarshal,
				// json.Unmarshal, rlp.Decode, ...): when the call site shows the dynamic type, the pointee
				// is havocked like a pointer argument; otherwise the target is unknown (noted)
				if isErrorType(ptypes[i]) {
					break
				}
				done := false
				if site := x; site != nil {
					cargs := site.Common().Args
					off := 0
					if site.Common().IsInvoke() {
						off = -1
					}
					if j := i + off; j >= 0 && j < len(cargs) {
						if mi, ok := cargs[j].(*ssa.MakeInterface); ok {
							if pt, ok := mi.X.Type().Underlying().(*types.Pointer); ok {
								ref := f.get(mi.X)[0]
								l := locOfRef(ref, pt.Elem())
								fv := make(Val, len(l.accs))
								for k, acc := range l.accs {
									fv[k] = c.fresh("ext_"+sanitize(name), acc.leaf.Sort)
								}
								c.assumeRanges(fv, pt.Elem(), reach, "")
								st.heap = c.store(st.heap, l, fv)
								done = true
							} else {
								done = true // a non-pointer value in the interface cannot be written through (shallow)
							}
						}
					}
				}
				if !done {
					c.note("external-call-with-interface-arg:" + name)
				}
			}
		}
	}
	na := c.fresh("alloc", "Int")
	c.assume(reach, ge(na, st.alloc.term()))
	nst := State{heap: st.heap, alloc: allocPtr{base: na}}
	var res Val
	if pure && c.eng.detResult(callee) {
		res = c.ufResult(callee, args, resT, reach, st, na)
	} else {
		res = c.freshVal("ret_"+sanitize(name), resT, reach, na)
	}
	c.stats.havocCalls++
	return callOut{res, nst}
}

// stillFresh: the MakeSlice result has no other use between its creation and instruction x
// (same block, adjacent apart from pure instructions), so its backing array is unshared.
func (f *frame) stillFresh(mk *ssa.MakeSlice, x ssa.CallInstruction) bool {
	instr, ok := x.(ssa.Instruction)
	if !ok || mk.Block() != instr.Block() {
		return false
	}
	refs := mk.Referrers()
	if refs == nil {
		return false
	}
	// every earlier referrer must be this call
	seen := false
	for _, in := range mk.Block().Instrs {
		if in == ssa.Instruction(mk) {
			seen = true
			continue
		}
		if !seen {
			continue
		}
		if in == instr {
			return true
		}
		for _, r := range *refs {
			if r == in {
				return false
			}
		}
	}
	return false
}

// callSiteRequires: preconditions the contract of the *caller* attaches to one of its call sites;
// the expression sees the caller's parameters and the callee's parameters (bound to the arguments).
func (f *frame) callSiteRequires(x ssa.CallInstruction, callee *ssa.Function, reqs []Clause, args []Val, st State, reach string) {
	c := f.c
	env := c.baseEnv(f.fn, f.contract, st, reach)
	for i, p := range f.fn.Params {
		if i < len(f.params) {
			env.vars[p.Name()] = sval{f.params[i], p.Type(), ""}
		}
	}
	for i, p := range callee.Params {
		if i < len(args) {
			env.vars[p.Name()] = sval{args[i], p.Type(), ""}
		}
	}
	old := c.baseEnv(f.fn, f.contract, f.entry, sTrue)
	for i, p := range f.fn.Params {
		if i < len(f.params) {
			old.vars[p.Name()] = sval{f.params[i], p.Type(), ""}
		}
	}
	env.old = old
	for k, v := range f.letCache {
		env.vars[k] = v
	}
	site := c.eng.posString(x.Pos())
	for _, r := range reqs {
		g := c.evalBool(env, r.Expr)
		c.addObl(&Obl{Name: fmt.Sprintf("%s/callsite[%s]/requires#%d@%s", f.fn.String(), callee.Name(), r.N, c.eng.lineText(x.Pos())), Kind: "callsite-requires",
			Cond: reach, Goal: g, Clause: r.Text, Pos: site, Props: r.Props})
	}
}
