package main

// SMT term construction helpers. Terms are plain SMT-LIB strings; the generator
// keeps sorts on the Go side (see shape.go).

import (
	"fmt"
	"math/big"
	"strings"
)

const (
	sTrue  = "true"
	sFalse = "false"
)

func app(f string, args ...string) string {
	if len(args) == 0 {
		return f
	}
	return "(" + f + " " + strings.Join(args, " ") + ")"
}

func and(xs ...string) string {
	var out []string
	for _, x := range xs {
		if x == sTrue {
			continue
		}
		if x == sFalse {
			return sFalse
		}
		out = append(out, x)
	}
	switch len(out) {
	case 0:
		return sTrue
	case 1:
		return out[0]
	}
	return app("and", out...)
}

func or(xs ...string) string {
	var out []string
	for _, x := range xs {
		if x == sFalse {
			continue
		}
		if x == sTrue {
			return sTrue
		}
		out = append(out, x)
	}
	switch len(out) {
	case 0:
		return sFalse
	case 1:
		return out[0]
	}
	return app("or", out...)
}

func not(x string) string {
	switch x {
	case sTrue:
		return sFalse
	case sFalse:
		return sTrue
	}
	if strings.HasPrefix(x, "(not ") && balanced(x[5:len(x)-1]) {
		return x[5 : len(x)-1]
	}
	return app("not", x)
}

func balanced(s string) bool {
	d := 0
	for _, c := range s {
		if c == '(' {
			d++
		} else if c == ')' {
			d--
			if d < 0 {
				return false
			}
		}
	}
	return d == 0
}

func implies(a, b string) string {
	if a == sTrue {
		return b
	}
	if a == sFalse || b == sTrue {
		return sTrue
	}
	return app("=>", a, b)
}

func ite(c, a, b string) string {
	if c == sTrue {
		return a
	}
	if c == sFalse {
		return b
	}
	if a == b {
		return a
	}
	return app("ite", c, a, b)
}

func eq(a, b string) string {
	if a == b {
		return sTrue
	}
	return app("=", a, b)
}

func sel(a, i string) string     { return app("select", a, i) }
func sto(a, i, v string) string  { return app("store", a, i, v) }
func add(a, b string) string {
	if x, ok := litBigS(a); ok {
		if y, ok := litBigS(b); ok {
			return numBig(new(big.Int).Add(x, y))
		}
	}
	return app("+", a, b)
}
func sub(a, b string) string {
	if x, ok := litBigS(a); ok {
		if y, ok := litBigS(b); ok {
			return numBig(new(big.Int).Sub(x, y))
		}
	}
	return app("-", a, b)
}
func mul(a, b string) string {
	if x, ok := litBigS(a); ok {
		if y, ok := litBigS(b); ok {
			return numBig(new(big.Int).Mul(x, y))
		}
	}
	return app("*", a, b)
}

func litBigS(s string) (*big.Int, bool) {
	neg := false
	if len(s) > 4 && s[:3] == "(- " && s[len(s)-1] == ')' {
		neg = true
		s = s[3 : len(s)-1]
	}
	if s == "" || len(s) > 100 {
		return nil, false
	}
	for _, ch := range s {
		if ch < '0' || ch > '9' {
			return nil, false
		}
	}
	n, ok := new(big.Int).SetString(s, 10)
	if !ok {
		return nil, false
	}
	if neg {
		n.Neg(n)
	}
	return n, true
}
func divT(a, b string) string {
	if x, ok := litBigS(a); ok {
		if y, ok := litBigS(b); ok && y.Sign() > 0 {
			return numBig(new(big.Int).Div(x, y))
		}
	}
	return app("div", a, b)
}
func le(a, b string) string      { return app("<=", a, b) }
func lt(a, b string) string      { return app("<", a, b) }
func ge(a, b string) string      { return app(">=", a, b) }
func gt(a, b string) string      { return app(">", a, b) }
func neq(a, b string) string     { return not(eq(a, b)) }
func between(lo, x, hi string) string { return and(le(lo, x), le(x, hi)) }

func num(n int64) string {
	if n < 0 {
		return fmt.Sprintf("(- %d)", -n)
	}
	return fmt.Sprintf("%d", n)
}

func numBig(n *big.Int) string {
	if n.Sign() < 0 {
		return "(- " + new(big.Int).Neg(n).String() + ")"
	}
	return n.String()
}

func pow2(k uint) *big.Int { return new(big.Int).Lsh(big.NewInt(1), k) }

// arrSort returns the sort of an array from Int to elem.
func arrSort(elem string) string { return "(Array Int " + elem + ")" }

func constArr(sort, v string) string { return "((as const " + sort + ") " + v + ")" }

// smtName quotes an identifier for SMT-LIB.
func smtName(s string) string {
	s = strings.ReplaceAll(s, "|", "!")
	s = strings.ReplaceAll(s, "\\", "!")
	return "|" + s + "|"
}
