package main

// Built-in contracts ("models") of library functions. These are assumptions:
// they are listed in every evidence file and conformance-tested by
// `gvc conformance` (differential test against the real library).

import (
	"fmt"
	"go/types"
	"math/big"
	"strings"

	"golang.org/x/tools/go/ssa"
)

type model struct {
	mods   []string // memory arrays written at pre-existing references
	allocs []string // arrays written only at fresh references
	apply  func(f *frame, callee *ssa.Function, args []Val, st State, reach string, site ssa.CallInstruction) (Val, State, bool)
}

const (
	bigMem  = "H|math/big.Int|.v"
	u256Mem = "H|github.com/holiman/uint256.Int|.v"
	two64   = "18446744073709551616"
	two63   = "9223372036854775808"
	two256  = "115792089237316195423570985008687907853269984665640564039457584007913129639936"
)

var modelTable map[string]*model

func lookupModel(fn *ssa.Function) *model {
	if fn == nil {
		return nil
	}
	if modelTable == nil {
		initModels()
	}
	return modelTable[fn.String()]
}

func bigGet(c *Ctx, st State, p string) string {
	return c.sel(c.heapGet(st.heap, bigMem, "(Array Int Int)"), p)
}

func bigSet(c *Ctx, st State, p, v string) State {
	arr := c.heapGet(st.heap, bigMem, "(Array Int Int)")
	st.heap = c.heapUpd(st.heap, bigMem, "(Array Int Int)", sto(arr, p, c.bind("bv", "Int", v)))
	return st
}

func u256Get(c *Ctx, st State, p string) string {
	return c.sel(c.heapGet(st.heap, u256Mem, "(Array Int Int)"), p)
}

func u256Set(c *Ctx, st State, p, v string) State {
	arr := c.heapGet(st.heap, u256Mem, "(Array Int Int)")
	st.heap = c.heapUpd(st.heap, u256Mem, "(Array Int Int)", sto(arr, p, c.bind("uv", "Int", v)))
	return st
}

func mod256(c *Ctx, t string) string {
	b := c.bind("m", "Int", t)
	return ite(and(le("0", b), lt(b, two256)), b, app("mod", b, two256))
}

type applyFn = func(f *frame, callee *ssa.Function, args []Val, st State, reach string, site ssa.CallInstruction) (Val, State, bool)

func nilGuard(f *frame, reach string, site ssa.CallInstruction, ps ...string) {
	if site == nil {
		return
	}
	for _, p := range ps {
		f.guard(reach, neq(p, "0"), "nil *big.Int / *uint256.Int dereference", site)
	}
}

func bigBin(op func(c *Ctx, x, y string) string, divGuard bool) applyFn {
	return func(f *frame, callee *ssa.Function, args []Val, st State, reach string, site ssa.CallInstruction) (Val, State, bool) {
		c := f.c
		z, x, y := args[0][0], args[1][0], args[2][0]
		nilGuard(f, reach, site, z, x, y)
		xv, yv := bigGet(c, st, x), bigGet(c, st, y)
		if divGuard && site != nil {
			f.guard(reach, neq(yv, "0"), "big.Int division by zero", site)
		}
		st = bigSet(c, st, z, op(c, xv, yv))
		return Val{z}, st, true
	}
}

func cmpTerm(a, b string) string {
	return ite(lt(a, b), "(- 1)", ite(eq(a, b), "0", "1"))
}

func (c *Ctx) bitlen(v string) string {
	fn := c.uf("bitlen", []string{"Int"}, "Int")
	r := app(fn, v)
	return r
}

func (c *Ctx) assumeBitlen(reach, v string) string {
	r := c.bind("bl", "Int", c.bitlen(v))
	av := app("abs", v)
	c.assume(reach, and(le("0", r), eq(eq(r, "0"), eq(v, "0"))))
	for _, k := range []int{8, 16, 32, 64, 128, 160, 256} {
		c.assume(reach, eq(le(r, num(int64(k))), lt(av, pow2(uint(k)).String())))
	}
	c.assume(reach, eq(le(r, "63"), lt(av, two63)))
	return r
}

func initModels() {
	modelTable = map[string]*model{}
	reg := func(name string, mods []string, fn applyFn) {
		modelTable[name] = &model{mods: mods, allocs: nil, apply: fn}
	}
	regA := func(name string, mods, allocs []string, fn applyFn) {
		modelTable[name] = &model{mods: mods, allocs: allocs, apply: fn}
	}
	// encoding/binary fixed-width byte orders (exact)
	for _, order := range []struct {
		recv string
		big  bool
	}{{"(encoding/binary.bigEndian).", true}, {"(encoding/binary.littleEndian).", false}} {
		order := order
		for _, w := range []int{2, 4, 8} {
			w := w
			bits := fmt.Sprint(w * 8)
			regA(order.recv+"PutUint"+bits, []string{"E|uint8|"}, nil, func(f *frame, callee *ssa.Function, args []Val, st State, reach string, site ssa.CallInstruction) (Val, State, bool) {
				c := f.c
				sl, v := args[1], args[2][0]
				if site != nil {
					f.guard(reach, ge(sl[2], num(int64(w))), "index out of range (binary.PutUint"+bits+")", site)
				}
				ms := memSort("Int", 2)
				E := c.heapGet(st.heap, "E|uint8|", ms)
				arr := c.sel(E, sl[0])
				for i := 0; i < w; i++ {
					shift := i
					if order.big {
						shift = w - 1 - i
					}
					b := app("mod", app("div", v, pow2(uint(8*shift)).String()), "256")
					arr = sto(arr, add(sl[1], num(int64(i))), b)
				}
				st.heap = c.heapUpd(st.heap, "E|uint8|", ms, sto(E, sl[0], arr))
				return Val{}, st, true
			})
			reg(order.recv+"Uint"+bits, nil, func(f *frame, callee *ssa.Function, args []Val, st State, reach string, site ssa.CallInstruction) (Val, State, bool) {
				c := f.c
				sl := args[1]
				if site != nil {
					f.guard(reach, ge(sl[2], num(int64(w))), "index out of range (binary.Uint"+bits+")", site)
				}
				ms := memSort("Int", 2)
				arr := c.sel(c.heapGet(st.heap, "E|uint8|", ms), sl[0])
				var terms []string
				for i := 0; i < w; i++ {
					shift := i
					if order.big {
						shift = w - 1 - i
					}
					terms = append(terms, mul(c.sel(arr, add(sl[1], num(int64(i)))), pow2(uint(8*shift)).String()))
				}
				r := c.bind("bin", "Int", app("+", terms...))
				c.assume(reach, and(le("0", r), lt(r, pow2(uint(8*w)).String())))
				return Val{r}, st, true
			})
		}
	}
	B := "(*math/big.Int)."
	bm := []string{bigMem}
	reg(B+"Add", bm, bigBin(func(c *Ctx, x, y string) string { return add(x, y) }, false))
	reg(B+"Sub", bm, bigBin(func(c *Ctx, x, y string) string { return sub(x, y) }, false))
	reg(B+"Mul", bm, bigBin(func(c *Ctx, x, y string) string { return c.mulTerm(x, y) }, false))
	reg(B+"Div", bm, bigBin(func(c *Ctx, x, y string) string { return divT(x, y) }, true))
	reg(B+"Mod", bm, bigBin(func(c *Ctx, x, y string) string { return app("mod", x, y) }, true))
	reg(B+"Quo", bm, bigBin(func(c *Ctx, x, y string) string { return goQuo(x, y, false) }, true))
	reg(B+"Rem", bm, bigBin(func(c *Ctx, x, y string) string { return goRem(x, y, false) }, true))
	reg(B+"Set", bm, func(f *frame, callee *ssa.Function, args []Val, st State, reach string, site ssa.CallInstruction) (Val, State, bool) {
		nilGuard(f, reach, site, args[0][0], args[1][0])
		st = bigSet(f.c, st, args[0][0], bigGet(f.c, st, args[1][0]))
		return Val{args[0][0]}, st, true
	})
	reg(B+"Neg", bm, func(f *frame, callee *ssa.Function, args []Val, st State, reach string, site ssa.CallInstruction) (Val, State, bool) {
		nilGuard(f, reach, site, args[0][0], args[1][0])
		st = bigSet(f.c, st, args[0][0], app("-", bigGet(f.c, st, args[1][0])))
		return Val{args[0][0]}, st, true
	})
	reg(B+"Abs", bm, func(f *frame, callee *ssa.Function, args []Val, st State, reach string, site ssa.CallInstruction) (Val, State, bool) {
		nilGuard(f, reach, site, args[0][0], args[1][0])
		st = bigSet(f.c, st, args[0][0], app("abs", bigGet(f.c, st, args[1][0])))
		return Val{args[0][0]}, st, true
	})
	setScalar := func(f *frame, callee *ssa.Function, args []Val, st State, reach string, site ssa.CallInstruction) (Val, State, bool) {
		nilGuard(f, reach, site, args[0][0])
		st = bigSet(f.c, st, args[0][0], args[1][0])
		return Val{args[0][0]}, st, true
	}
	reg(B+"SetUint64", bm, setScalar)
	reg(B+"SetInt64", bm, setScalar)
	reg(B+"SetBytes", bm, func(f *frame, callee *ssa.Function, args []Val, st State, reach string, site ssa.CallInstruction) (Val, State, bool) {
		c := f.c
		nilGuard(f, reach, site, args[0][0])
		sl := args[1]
		be := c.beValue(st.heap, sval{sl, types.NewSlice(types.Typ[types.Uint8]), ""})
		r := c.bind("be", "Int", be)
		c.assume(reach, le("0", r))
		c.assume(reach, implies(eq(sl[2], "0"), eq(r, "0")))
		c.assumeBeBounds(reach, r, sl[2])
		st = bigSet(c, st, args[0][0], r)
		return Val{args[0][0]}, st, true
	})
	reg(B+"SetString", bm, func(f *frame, callee *ssa.Function, args []Val, st State, reach string, site ssa.CallInstruction) (Val, State, bool) {
		c := f.c
		nilGuard(f, reach, site, args[0][0])
		// literal string and base: compute the value
		if lit, ok := c.strLit(args[1][0]); ok {
			if base, ok2 := litInt(args[2][0]); ok2 {
				if v, ok3 := new(big.Int).SetString(lit, int(base)); ok3 {
					st = bigSet(c, st, args[0][0], numBig(v))
					return Val{args[0][0], sTrue}, st, true
				}
				return Val{"0", sFalse}, st, true
			}
		}
		okv := c.fresh("setstring_ok", "Bool")
		nv := c.fresh("setstring_v", "Int")
		st = bigSet(c, st, args[0][0], nv)
		return Val{ite(okv, args[0][0], "0"), okv}, st, true
	})
	reg(B+"Cmp", nil, func(f *frame, callee *ssa.Function, args []Val, st State, reach string, site ssa.CallInstruction) (Val, State, bool) {
		nilGuard(f, reach, site, args[0][0], args[1][0])
		return Val{f.c.bind("cmp", "Int", cmpTerm(bigGet(f.c, st, args[0][0]), bigGet(f.c, st, args[1][0])))}, st, true
	})
	reg(B+"CmpAbs", nil, func(f *frame, callee *ssa.Function, args []Val, st State, reach string, site ssa.CallInstruction) (Val, State, bool) {
		nilGuard(f, reach, site, args[0][0], args[1][0])
		return Val{f.c.bind("cmp", "Int", cmpTerm(app("abs", bigGet(f.c, st, args[0][0])), app("abs", bigGet(f.c, st, args[1][0]))))}, st, true
	})
	reg(B+"Sign", nil, func(f *frame, callee *ssa.Function, args []Val, st State, reach string, site ssa.CallInstruction) (Val, State, bool) {
		nilGuard(f, reach, site, args[0][0])
		return Val{f.c.bind("sgn", "Int", cmpTerm(bigGet(f.c, st, args[0][0]), "0"))}, st, true
	})
	reg(B+"Uint64", nil, func(f *frame, callee *ssa.Function, args []Val, st State, reach string, site ssa.CallInstruction) (Val, State, bool) {
		nilGuard(f, reach, site, args[0][0])
		v := bigGet(f.c, st, args[0][0])
		return Val{f.c.bind("u64", "Int", ite(and(le("0", v), lt(v, two64)), v, app("mod", app("abs", v), two64)))}, st, true
	})
	reg(B+"Int64", nil, func(f *frame, callee *ssa.Function, args []Val, st State, reach string, site ssa.CallInstruction) (Val, State, bool) {
		c := f.c
		nilGuard(f, reach, site, args[0][0])
		v := bigGet(c, st, args[0][0])
		inr := and(le("(- "+two63+")", v), lt(v, two63))
		r := c.fresh("i64", "Int")
		c.assume(reach, and(le("(- "+two63+")", r), lt(r, two63), implies(inr, eq(r, v))))
		return Val{r}, st, true
	})
	reg(B+"IsUint64", nil, func(f *frame, callee *ssa.Function, args []Val, st State, reach string, site ssa.CallInstruction) (Val, State, bool) {
		nilGuard(f, reach, site, args[0][0])
		v := bigGet(f.c, st, args[0][0])
		return Val{and(le("0", v), lt(v, two64))}, st, true
	})
	reg(B+"IsInt64", nil, func(f *frame, callee *ssa.Function, args []Val, st State, reach string, site ssa.CallInstruction) (Val, State, bool) {
		nilGuard(f, reach, site, args[0][0])
		v := bigGet(f.c, st, args[0][0])
		return Val{and(le("(- "+two63+")", v), lt(v, two63))}, st, true
	})
	reg(B+"BitLen", nil, func(f *frame, callee *ssa.Function, args []Val, st State, reach string, site ssa.CallInstruction) (Val, State, bool) {
		nilGuard(f, reach, site, args[0][0])
		v := bigGet(f.c, st, args[0][0])
		return Val{f.c.assumeBitlen(reach, v)}, st, true
	})
	shift := func(left bool) applyFn {
		return func(f *frame, callee *ssa.Function, args []Val, st State, reach string, site ssa.CallInstruction) (Val, State, bool) {
			c := f.c
			nilGuard(f, reach, site, args[0][0], args[1][0])
			x := bigGet(c, st, args[1][0])
			var p string
			if n, ok := litInt(args[2][0]); ok && n >= 0 && n <= 4096 {
				p = pow2(uint(n)).String()
			} else {
				p = app(c.uf("pow2", []string{"Int"}, "Int"), args[2][0])
				c.assume(reach, ge(p, "1"))
			}
			if left {
				st = bigSet(c, st, args[0][0], mul(x, p))
			} else {
				st = bigSet(c, st, args[0][0], app("div", x, p))
			}
			return Val{args[0][0]}, st, true
		}
	}
	reg(B+"Lsh", bm, shift(true))
	reg(B+"Rsh", bm, shift(false))
	reg(B+"Exp", bm, func(f *frame, callee *ssa.Function, args []Val, st State, reach string, site ssa.CallInstruction) (Val, State, bool) {
		c := f.c
		z, x, y, m := args[0][0], args[1][0], args[2][0], args[3][0]
		nilGuard(f, reach, site, z, x, y)
		xv, yv := bigGet(c, st, x), bigGet(c, st, y)
		mIsZero := m == "0"
		if !mIsZero {
			if ml, ok := litBig(bigGet(c, st, m)); ok && ml.Sign() == 0 {
				mIsZero = true
			}
		}
		if xl, ok := litBig(xv); ok && mIsZero {
			if yl, ok2 := litBig(yv); ok2 && yl.Sign() >= 0 && yl.BitLen() <= 16 {
				st = bigSet(c, st, z, numBig(new(big.Int).Exp(xl, yl, nil)))
				return Val{z}, st, true
			}
		}
		r := app(c.uf("bigexp", []string{"Int", "Int", "Int"}, "Int"), xv, yv, ite(eq(m, "0"), "0", bigGet(c, st, m)))
		rb := c.bind("exp", "Int", r)
		c.assume(reach, implies(and(ge(xv, "0")), ge(rb, "0")))
		c.assume(reach, implies(and(eq(m, "0"), le(yv, "0")), eq(rb, "1")))
		c.assume(reach, implies(and(eq(m, "0"), eq(yv, "1")), eq(rb, xv)))
		c.assume(reach, implies(and(eq(m, "0"), eq(yv, "2")), eq(rb, mul(xv, xv))))
		// 2^k for literal-valued arguments is handled through global facts
		st = bigSet(c, st, z, rb)
		return Val{z}, st, true
	})
	regA("math/big.NewInt", nil, bm, func(f *frame, callee *ssa.Function, args []Val, st State, reach string, site ssa.CallInstruction) (Val, State, bool) {
		r := st.alloc.term()
		st.alloc.off++
		st = bigSet(f.c, st, r, args[0][0])
		return Val{r}, st, true
	})
	regA(B+"Bytes", nil, []string{"E|uint8|"}, func(f *frame, callee *ssa.Function, args []Val, st State, reach string, site ssa.CallInstruction) (Val, State, bool) {
		c := f.c
		nilGuard(f, reach, site, args[0][0])
		v := bigGet(c, st, args[0][0])
		r := st.alloc.term()
		st.alloc.off++
		bl := c.assumeBitlen(reach, v)
		ln := c.bind("bytesn", "Int", app("div", add(bl, "7"), "8"))
		// the byte string is a function of the magnitude (deterministic encoding)
		arr := c.bind("bytes", arrSort("Int"), app(c.uf("bigbytes", []string{"Int"}, arrSort("Int")), app("abs", v)))
		ms := memSort("Int", 2)
		E := c.heapGet(st.heap, "E|uint8|", ms)
		st.heap = c.heapUpd(st.heap, "E|uint8|", ms, sto(E, r, arr))
		be := app(c.uf("be", []string{arrSort("Int"), "Int", "Int"}, "Int"), arr, "0", ln)
		c.assume(reach, eq(be, app("abs", v)))
		// minimal encoding: first byte non-zero
		c.assume(reach, implies(gt(ln, "0"), and(lt("0", sel(arr, "0")), le(sel(arr, "0"), "255"))))
		return Val{r, "0", ln, ln}, st, true
	})
	reg(B+"String", nil, func(f *frame, callee *ssa.Function, args []Val, st State, reach string, site ssa.CallInstruction) (Val, State, bool) {
		c := f.c
		v := ite(eq(args[0][0], "0"), "0", bigGet(c, st, args[0][0]))
		return Val{app(c.uf("str_of_int", []string{"Int"}, "Str"), v)}, st, true
	})
	reg(B+"ProbablyPrime", nil, func(f *frame, callee *ssa.Function, args []Val, st State, reach string, site ssa.CallInstruction) (Val, State, bool) {
		return Val{f.c.fresh("pp", "Bool")}, st, true
	})

	// ---- uint256 ----
	U := "(*github.com/holiman/uint256.Int)."
	um := []string{u256Mem}
	ubin := func(op func(c *Ctx, x, y string) string) applyFn {
		return func(f *frame, callee *ssa.Function, args []Val, st State, reach string, site ssa.CallInstruction) (Val, State, bool) {
			c := f.c
			z, x, y := args[0][0], args[1][0], args[2][0]
			nilGuard(f, reach, site, z, x, y)
			xv, yv := u256Get(c, st, x), u256Get(c, st, y)
			st = u256Set(c, st, z, op(c, xv, yv))
			return Val{z}, st, true
		}
	}
	reg(U+"Add", um, ubin(func(c *Ctx, x, y string) string { return mod256(c, add(x, y)) }))
	reg(U+"Sub", um, ubin(func(c *Ctx, x, y string) string { return mod256(c, sub(x, y)) }))
	reg(U+"Mul", um, ubin(func(c *Ctx, x, y string) string { return mod256(c, c.mulTerm(x, y)) }))
	reg(U+"Div", um, ubin(func(c *Ctx, x, y string) string { return ite(eq(y, "0"), "0", app("div", x, y)) }))
	reg(U+"Mod", um, ubin(func(c *Ctx, x, y string) string { return ite(eq(y, "0"), "0", app("mod", x, y)) }))
	uovf := func(op func(x, y string) string, ovf func(r string) string) applyFn {
		return func(f *frame, callee *ssa.Function, args []Val, st State, reach string, site ssa.CallInstruction) (Val, State, bool) {
			c := f.c
			z, x, y := args[0][0], args[1][0], args[2][0]
			nilGuard(f, reach, site, z, x, y)
			xv, yv := u256Get(c, st, x), u256Get(c, st, y)
			var r string
			if op == nil {
				r = c.bind("ov", "Int", c.mulTerm(xv, yv))
			} else {
				r = c.bind("ov", "Int", op(xv, yv))
			}
			st = u256Set(c, st, z, mod256(c, r))
			return Val{z, ovf(r)}, st, true
		}
	}
	reg(U+"AddOverflow", um, uovf(add, func(r string) string { return ge(r, two256) }))
	reg(U+"SubOverflow", um, uovf(sub, func(r string) string { return lt(r, "0") }))
	reg(U+"MulOverflow", um, uovf(nil, func(r string) string { return ge(r, two256) }))
	ucmp := func(op func(a, b string) string) applyFn {
		return func(f *frame, callee *ssa.Function, args []Val, st State, reach string, site ssa.CallInstruction) (Val, State, bool) {
			nilGuard(f, reach, site, args[0][0], args[1][0])
			return Val{op(u256Get(f.c, st, args[0][0]), u256Get(f.c, st, args[1][0]))}, st, true
		}
	}
	reg(U+"Lt", nil, ucmp(lt))
	reg(U+"Gt", nil, ucmp(gt))
	reg(U+"Eq", nil, ucmp(eq))
	// signed comparisons: operands read as 256-bit two's complement numbers
	signed := func(x string) string { return ite(ge(x, pow2(255).String()), sub(x, pow2(256).String()), x) }
	reg(U+"Slt", nil, ucmp(func(a, b string) string { return lt(signed(a), signed(b)) }))
	reg(U+"Sgt", nil, ucmp(func(a, b string) string { return gt(signed(a), signed(b)) }))
	reg(U+"Cmp", nil, ucmp(cmpTerm))
	reg(U+"IsZero", nil, func(f *frame, callee *ssa.Function, args []Val, st State, reach string, site ssa.CallInstruction) (Val, State, bool) {
		nilGuard(f, reach, site, args[0][0])
		return Val{eq(u256Get(f.c, st, args[0][0]), "0")}, st, true
	})
	reg(U+"Sign", nil, func(f *frame, callee *ssa.Function, args []Val, st State, reach string, site ssa.CallInstruction) (Val, State, bool) {
		nilGuard(f, reach, site, args[0][0])
		v := u256Get(f.c, st, args[0][0])
		// sign as two's complement 256-bit
		return Val{ite(eq(v, "0"), "0", ite(lt(v, pow2(255).String()), "1", "(- 1)"))}, st, true
	})
	reg(U+"IsUint64", nil, func(f *frame, callee *ssa.Function, args []Val, st State, reach string, site ssa.CallInstruction) (Val, State, bool) {
		nilGuard(f, reach, site, args[0][0])
		return Val{lt(u256Get(f.c, st, args[0][0]), two64)}, st, true
	})
	reg(U+"Uint64", nil, func(f *frame, callee *ssa.Function, args []Val, st State, reach string, site ssa.CallInstruction) (Val, State, bool) {
		nilGuard(f, reach, site, args[0][0])
		v := u256Get(f.c, st, args[0][0])
		return Val{f.c.bind("u64", "Int", ite(lt(v, two64), v, app("mod", v, two64)))}, st, true
	})
	reg(U+"Uint64WithOverflow", nil, func(f *frame, callee *ssa.Function, args []Val, st State, reach string, site ssa.CallInstruction) (Val, State, bool) {
		nilGuard(f, reach, site, args[0][0])
		v := u256Get(f.c, st, args[0][0])
		return Val{f.c.bind("u64", "Int", ite(lt(v, two64), v, app("mod", v, two64))), ge(v, two64)}, st, true
	})
	reg(U+"SetUint64", um, func(f *frame, callee *ssa.Function, args []Val, st State, reach string, site ssa.CallInstruction) (Val, State, bool) {
		nilGuard(f, reach, site, args[0][0])
		st = u256Set(f.c, st, args[0][0], args[1][0])
		return Val{args[0][0]}, st, true
	})
	reg(U+"Set", um, func(f *frame, callee *ssa.Function, args []Val, st State, reach string, site ssa.CallInstruction) (Val, State, bool) {
		nilGuard(f, reach, site, args[0][0], args[1][0])
		st = u256Set(f.c, st, args[0][0], u256Get(f.c, st, args[1][0]))
		return Val{args[0][0]}, st, true
	})
	reg(U+"Clear", um, func(f *frame, callee *ssa.Function, args []Val, st State, reach string, site ssa.CallInstruction) (Val, State, bool) {
		nilGuard(f, reach, site, args[0][0])
		st = u256Set(f.c, st, args[0][0], "0")
		return Val{args[0][0]}, st, true
	})
	reg(U+"SetOne", um, func(f *frame, callee *ssa.Function, args []Val, st State, reach string, site ssa.CallInstruction) (Val, State, bool) {
		nilGuard(f, reach, site, args[0][0])
		st = u256Set(f.c, st, args[0][0], "1")
		return Val{args[0][0]}, st, true
	})
	reg(U+"SetFromBig", um, func(f *frame, callee *ssa.Function, args []Val, st State, reach string, site ssa.CallInstruction) (Val, State, bool) {
		c := f.c
		nilGuard(f, reach, site, args[0][0], args[1][0])
		v := bigGet(c, st, args[1][0])
		st = u256Set(c, st, args[0][0], mod256(c, v))
		// overflow flag: |v| needs more than 256 bits
		return Val{ge(app("abs", v), two256)}, st, true
	})
	regA(U+"ToBig", nil, bm, func(f *frame, callee *ssa.Function, args []Val, st State, reach string, site ssa.CallInstruction) (Val, State, bool) {
		c := f.c
		r := st.alloc.term()
		st.alloc.off++
		st = bigSet(c, st, r, u256Get(c, st, args[0][0]))
		return Val{r}, st, true
	})
	regA(U+"Clone", nil, um, func(f *frame, callee *ssa.Function, args []Val, st State, reach string, site ssa.CallInstruction) (Val, State, bool) {
		c := f.c
		nilGuard(f, reach, site, args[0][0])
		r := st.alloc.term()
		st.alloc.off++
		st = u256Set(c, st, r, u256Get(c, st, args[0][0]))
		return Val{r}, st, true
	})
	regA("github.com/holiman/uint256.NewInt", nil, um, func(f *frame, callee *ssa.Function, args []Val, st State, reach string, site ssa.CallInstruction) (Val, State, bool) {
		r := st.alloc.term()
		st.alloc.off++
		st = u256Set(f.c, st, r, args[0][0])
		return Val{r}, st, true
	})
	regA("github.com/holiman/uint256.FromBig", nil, um, func(f *frame, callee *ssa.Function, args []Val, st State, reach string, site ssa.CallInstruction) (Val, State, bool) {
		c := f.c
		r := st.alloc.term()
		st.alloc.off++
		v := bigGet(c, st, args[0][0])
		st = u256Set(c, st, r, mod256(c, v))
		return Val{r, ge(app("abs", v), two256)}, st, true
	})
	reg(U+"SetBytes", um, func(f *frame, callee *ssa.Function, args []Val, st State, reach string, site ssa.CallInstruction) (Val, State, bool) {
		c := f.c
		nilGuard(f, reach, site, args[0][0])
		sl := args[1]
		be := c.beValue(st.heap, sval{sl, types.NewSlice(types.Typ[types.Uint8]), ""})
		r := c.bind("be", "Int", be)
		c.assume(reach, le("0", r))
		c.assumeBeBounds(reach, r, sl[2])
		st = u256Set(c, st, args[0][0], mod256(c, r))
		return Val{args[0][0]}, st, true
	})

	// ---- misc ----
	nonNilErr := func(f *frame, callee *ssa.Function, args []Val, st State, reach string, site ssa.CallInstruction) (Val, State, bool) {
		c := f.c
		r := st.alloc.term()
		st.alloc.off++
		tag := num(int64(c.eng.typeID("*errors.errorString")))
		return Val{tag, r}, st, true
	}
	reg("errors.New", nil, nonNilErr)
	reg("fmt.Errorf", nil, nonNilErr)
	noop := func(f *frame, callee *ssa.Function, args []Val, st State, reach string, site ssa.CallInstruction) (Val, State, bool) {
		return nil, st, true
	}
	for _, n := range []string{"(*sync.Mutex).Lock", "(*sync.Mutex).Unlock", "(*sync.RWMutex).Lock", "(*sync.RWMutex).Unlock",
		"(*sync.RWMutex).RLock", "(*sync.RWMutex).RUnlock", "(*sync.WaitGroup).Add", "(*sync.WaitGroup).Done", "(*sync.WaitGroup).Wait"} {
		reg(n, nil, noop)
	}
	reg("bytes.Equal", nil, func(f *frame, callee *ssa.Function, args []Val, st State, reach string, site ssa.CallInstruction) (Val, State, bool) {
		c := f.c
		a, b := args[0], args[1]
		E := c.heapGet(st.heap, "E|uint8|", memSort("Int", 2))
		fn := c.uf("bytes_eq", []string{arrSort("Int"), "Int", "Int", arrSort("Int"), "Int", "Int"}, "Bool")
		aa, ba := c.sel(E, a[0]), c.sel(E, b[0])
		r := c.bind("beq", "Bool", app(fn, aa, a[1], a[2], ba, b[1], b[2]))
		c.assume(reach, implies(r, eq(a[2], b[2])))
		c.assume(reach, implies(and(eq(a[2], "0"), eq(b[2], "0")), r))
		// equal slices have equal big-endian values and equal bytes at every accessed index (instantiated on demand by be)
		be := c.uf("be", []string{arrSort("Int"), "Int", "Int"}, "Int")
		c.assume(reach, implies(r, eq(app(be, aa, a[1], a[2]), app(be, ba, b[1], b[2]))))
		// short slices (e.g. a Location): exact meaning for lengths up to 4
		{
			var parts []string
			for k := int64(0); k < 4; k++ {
				ks := num(k)
				parts = append(parts, implies(lt(ks, a[2]), eq(c.sel(aa, addOff(a[1], ks)), c.sel(ba, addOff(b[1], ks)))))
			}
			c.assume(reach, implies(and(eq(a[2], b[2]), le(a[2], "4")), eq(r, and(parts...))))
		}
		if na, ok := litInt(a[2]); ok && na <= 64 {
			var parts []string
			for k := int64(0); k < na; k++ {
				parts = append(parts, eq(c.sel(aa, addOff(a[1], num(k))), c.sel(ba, addOff(b[1], num(k)))))
			}
			c.assume(reach, implies(eq(b[2], a[2]), eq(r, and(parts...))))
		} else if nb, ok := litInt(b[2]); ok && nb <= 64 {
			var parts []string
			for k := int64(0); k < nb; k++ {
				parts = append(parts, eq(c.sel(aa, addOff(a[1], num(k))), c.sel(ba, addOff(b[1], num(k)))))
			}
			c.assume(reach, implies(eq(b[2], a[2]), eq(r, and(parts...))))
		}
		return Val{r}, st, true
	})
	_ = fmt.Sprintf
	_ = strings.HasPrefix
}

// assumeBeBounds: be(bytes of length n) < 256^n for small literal n and the usual sizes.
func (c *Ctx) assumeBeBounds(reach, be, n string) {
	if k, ok := litInt(n); ok && k >= 0 && k <= 64 {
		c.assume(reach, lt(be, pow2(uint(8*k)).String()))
		return
	}
	for _, k := range []int64{1, 8, 20, 32} {
		c.assume(reach, implies(le(n, num(k)), lt(be, pow2(uint(8*k)).String())))
	}
}
