package main

// Evaluation of specification expressions (Go expression syntax) into SMT terms.

import (
	"fmt"
	"go/ast"
	"go/constant"
	"go/token"
	"go/types"
	"math/big"
	"strconv"
	"strings"

	"golang.org/x/tools/go/ssa"
)

type sval struct {
	v Val
	t types.Type // nil for spec-only sorts
	sort string  // for spec-only values (t == nil): SMT sort
}

var (
	tInt  = types.Typ[types.UntypedInt]
	tBool = types.Typ[types.Bool]
)

type specEnv struct {
	c     *Ctx
	vars  map[string]sval
	st    State
	old   *specEnv
	pkg   *types.Package
	spkg  *ssa.Package
	reach string
	frame *frame
	errs  *[]string
	lets  map[string]ast.Expr
}

func (e *specEnv) errorf(format string, a ...interface{}) {
	msg := fmt.Sprintf(format, a...)
	if e.errs != nil {
		*e.errs = append(*e.errs, msg)
	}
	e.c.specErrs = append(e.c.specErrs, msg)
}

func (c *Ctx) evalBool(env *specEnv, ex ast.Expr) string {
	sv := env.eval(ex)
	if len(sv.v) != 1 {
		env.errorf("spec expression is not boolean: %s", exprString(ex))
		return sFalse
	}
	return sv.v[0]
}

func exprString(e ast.Expr) string {
	return types.ExprString(e)
}

func (e *specEnv) clone() *specEnv {
	n := *e
	n.vars = map[string]sval{}
	for k, v := range e.vars {
		n.vars[k] = v
	}
	return &n
}

func (e *specEnv) eval(ex ast.Expr) sval {
	c := e.c
	switch x := ex.(type) {
	case *ast.ParenExpr:
		return e.eval(x.X)
	case *ast.BasicLit:
		switch x.Kind {
		case token.INT:
			n, ok := new(big.Int).SetString(x.Value, 0)
			if !ok {
				e.errorf("bad int literal %s", x.Value)
				return sval{Val{"0"}, tInt, ""}
			}
			return sval{Val{numBig(n)}, tInt, ""}
		case token.STRING:
			s, _ := strconv.Unquote(x.Value)
			return sval{Val{c.strConst(s)}, types.Typ[types.String], ""}
		case token.CHAR:
			s, _ := strconv.Unquote(x.Value)
			return sval{Val{num(int64([]rune(s)[0]))}, tInt, ""}
		}
	case *ast.Ident:
		return e.ident(x)
	case *ast.UnaryExpr:
		a := e.eval(x.X)
		switch x.Op {
		case token.NOT:
			return sval{Val{not(a.v[0])}, tBool, ""}
		case token.SUB:
			return sval{Val{app("-", a.v[0])}, tInt, ""}
		case token.AND:
			// &x : only meaningful for values that are references already
			return a
		}
	case *ast.StarExpr:
		a := e.eval(x.X)
		if a.t == nil {
			e.errorf("deref of spec value")
			return a
		}
		pt, ok := a.t.Underlying().(*types.Pointer)
		if !ok {
			e.errorf("deref of non-pointer %s", exprString(x.X))
			return a
		}
		return sval{c.load(e.st.heap, locOfRef(a.v[0], pt.Elem())), pt.Elem(), ""}
	case *ast.BinaryExpr:
		return e.binary(x)
	case *ast.SelectorExpr:
		return e.selector(x)
	case *ast.IndexExpr:
		return e.indexExpr(x)
	case *ast.CallExpr:
		return e.callExpr(x)
	case *ast.SliceExpr:
		return e.sliceExpr(x)
	}
	e.errorf("unsupported spec expression %s (%T)", exprString(ex), ex)
	return sval{Val{sFalse}, tBool, ""}
}

func (e *specEnv) ident(x *ast.Ident) sval {
	c := e.c
	switch x.Name {
	case "true":
		return sval{Val{sTrue}, tBool, ""}
	case "false":
		return sval{Val{sFalse}, tBool, ""}
	case "nil":
		return sval{Val{"0"}, types.Typ[types.UntypedNil], ""}
	}
	if v, ok := e.vars[x.Name]; ok {
		return v
	}
	if le, ok := e.lets[x.Name]; ok {
		// lets are evaluated in the entry state
		env := e
		if e.old != nil {
			env = e.old
		}
		v := env.eval(le)
		e.vars[x.Name] = v
		return v
	}
	// ghost arrays
	if g, ok := c.eng.ghosts[x.Name]; ok {
		return sval{Val{c.heapGet(e.st.heap, "G|"+x.Name, g.Ret)}, nil, g.Ret}
	}
	if e.pkg != nil {
		if obj := e.pkg.Scope().Lookup(x.Name); obj != nil {
			return e.object(obj)
		}
	}
	if obj := types.Universe.Lookup(x.Name); obj != nil {
		if k, ok := obj.(*types.Const); ok {
			return e.constObj(k)
		}
	}
	e.errorf("unknown identifier %s", x.Name)
	return sval{Val{c.fresh("unknown_"+x.Name, "Int")}, tInt, ""}
}

func (e *specEnv) constObj(k *types.Const) sval {
	c := e.c
	v := k.Val()
	switch v.Kind() {
	case constant.Bool:
		if constant.BoolVal(v) {
			return sval{Val{sTrue}, tBool, ""}
		}
		return sval{Val{sFalse}, tBool, ""}
	case constant.Int:
		if bi, ok := constant.Val(v).(*big.Int); ok {
			return sval{Val{numBig(bi)}, k.Type(), ""}
		}
		i64, _ := constant.Int64Val(v)
		return sval{Val{num(i64)}, k.Type(), ""}
	case constant.String:
		return sval{Val{c.strConst(constant.StringVal(v))}, k.Type(), ""}
	case constant.Float:
		if constant.ToInt(v).Kind() == constant.Int {
			iv := constant.ToInt(v)
			if bi, ok := constant.Val(iv).(*big.Int); ok {
				return sval{Val{numBig(bi)}, tInt, ""}
			}
			i64, _ := constant.Int64Val(iv)
			return sval{Val{num(i64)}, tInt, ""}
		}
	}
	e.errorf("unsupported constant %s", k.Name())
	return sval{Val{"0"}, tInt, ""}
}

func (e *specEnv) object(obj types.Object) sval {
	c := e.c
	switch o := obj.(type) {
	case *types.Const:
		return e.constObj(o)
	case *types.Var:
		// package-level variable: load from its global cell
		if sp := c.eng.prog.Package(o.Pkg()); sp != nil {
			if g, ok := sp.Members[o.Name()].(*ssa.Global); ok {
				c.seeGlobal(g)
				ref := num(c.eng.globalRef(g))
				v := c.load(e.st.heap, locOfRef(ref, o.Type()))
				return sval{v, o.Type(), ""}
			}
		}
	case *types.Func:
		if sp := c.eng.prog.Package(o.Pkg()); sp != nil {
			if fn := sp.Func(o.Name()); fn != nil {
				return sval{Val{num(c.eng.funcRef(fn))}, o.Type(), ""}
			}
		}
	}
	e.errorf("unsupported object %s", obj.Name())
	return sval{Val{"0"}, tInt, ""}
}

func isSpecInt(t types.Type) bool {
	if t == nil {
		return false
	}
	return isInteger(t)
}

func (e *specEnv) binary(x *ast.BinaryExpr) sval {
	c := e.c
	switch x.Op {
	case token.LAND:
		a := e.eval(x.X)
		b := e.eval(x.Y)
		return sval{Val{and(a.v[0], b.v[0])}, tBool, ""}
	case token.LOR:
		a := e.eval(x.X)
		b := e.eval(x.Y)
		return sval{Val{or(a.v[0], b.v[0])}, tBool, ""}
	}
	a := e.eval(x.X)
	b := e.eval(x.Y)
	switch x.Op {
	case token.EQL, token.NEQ:
		var r string
		t := a.t
		if t == nil || (isUntypedNil(a.t) && b.t != nil) {
			t = b.t
		}
		if a.t == nil && b.t == nil {
			r = eq(a.v[0], b.v[0])
		} else if isUntypedNil(a.t) || isUntypedNil(b.t) {
			// comparison with nil: reference leaf / tag
			other := a
			if isUntypedNil(a.t) {
				other = b
			}
			r = eq(other.v[0], "0")
		} else if t != nil && len(a.v) == len(b.v) {
			r = c.valsEqual(a.v, b.v, t)
		} else if len(a.v) == 1 && len(b.v) == 1 {
			r = eq(a.v[0], b.v[0])
		} else {
			e.errorf("cannot compare %s and %s", exprString(x.X), exprString(x.Y))
			r = sFalse
		}
		if x.Op == token.NEQ {
			r = not(r)
		}
		return sval{Val{r}, tBool, ""}
	}
	if len(a.v) != 1 || len(b.v) != 1 {
		e.errorf("operator %s on compound values", x.Op)
		return sval{Val{sFalse}, tBool, ""}
	}
	l, r := a.v[0], b.v[0]
	switch x.Op {
	case token.LSS:
		return sval{Val{lt(l, r)}, tBool, ""}
	case token.LEQ:
		return sval{Val{le(l, r)}, tBool, ""}
	case token.GTR:
		return sval{Val{gt(l, r)}, tBool, ""}
	case token.GEQ:
		return sval{Val{ge(l, r)}, tBool, ""}
	case token.ADD:
		return sval{Val{add(l, r)}, tInt, ""}
	case token.SUB:
		return sval{Val{sub(l, r)}, tInt, ""}
	case token.MUL:
		return sval{Val{c.mulTerm(l, r)}, tInt, ""}
	case token.QUO:
		// mathematical floor division on non-negative operands (spec ints); use div
		return sval{Val{app("div", l, r)}, tInt, ""}
	case token.REM:
		return sval{Val{app("mod", l, r)}, tInt, ""}
	case token.SHL:
		if n, ok := litInt(r); ok && n >= 0 && n < 1024 {
			return sval{Val{mul(l, pow2(uint(n)).String())}, tInt, ""}
		}
	case token.SHR:
		if n, ok := litInt(r); ok && n >= 0 && n < 1024 {
			return sval{Val{app("div", l, pow2(uint(n)).String())}, tInt, ""}
		}
	}
	e.errorf("unsupported operator %s", x.Op)
	return sval{Val{sFalse}, tBool, ""}
}

func isUntypedNil(t types.Type) bool {
	b, ok := t.(*types.Basic)
	return ok && b.Kind() == types.UntypedNil
}

// selector: x.f with auto-deref, embedded fields, or pkg.Name.
func (e *specEnv) selector(x *ast.SelectorExpr) sval {
	c := e.c
	if id, ok := x.X.(*ast.Ident); ok {
		if _, bound := e.vars[id.Name]; !bound {
			if _, isLet := e.lets[id.Name]; !isLet && e.pkg != nil {
				// package qualifier?
				for _, imp := range e.pkg.Imports() {
					if imp.Name() == id.Name {
						obj := imp.Scope().Lookup(x.Sel.Name)
						if obj == nil {
							e.errorf("unknown %s.%s", id.Name, x.Sel.Name)
							return sval{Val{"0"}, tInt, ""}
						}
						return e.object(obj)
					}
				}
				if p := c.eng.pkgByName(id.Name); p != nil && e.pkg.Scope().Lookup(id.Name) == nil {
					if obj := p.Scope().Lookup(x.Sel.Name); obj != nil {
						return e.object(obj)
					}
				}
			}
		}
	}
	base := e.eval(x.X)
	if base.t == nil {
		e.errorf("selector on spec value %s", exprString(x))
		return base
	}
	return e.selectField(base, x.Sel.Name, exprString(x))
}

func (e *specEnv) selectField(base sval, name string, what string) sval {
	c := e.c
	var pkg *types.Package
	if n, ok := deref(base.t).(*types.Named); ok && n.Obj().Pkg() != nil {
		pkg = n.Obj().Pkg()
	} else {
		pkg = e.pkg
	}
	obj, index, _ := types.LookupFieldOrMethod(base.t, true, pkg, name)
	if obj == nil && e.pkg != nil {
		obj, index, _ = types.LookupFieldOrMethod(base.t, true, e.pkg, name)
	}
	fv, ok := obj.(*types.Var)
	if !ok || fv == nil {
		e.errorf("no field %s in %s (%s)", name, base.t, what)
		return sval{Val{"0"}, tInt, ""}
	}
	cur := base
	for _, fi := range index {
		// auto-deref
		if pt, ok := cur.t.Underlying().(*types.Pointer); ok {
			loc := locOfRef(cur.v[0], pt.Elem())
			st, ok := pt.Elem().Underlying().(*types.Struct)
			if !ok {
				e.errorf("field of non-struct pointer")
				return cur
			}
			fl := locField(loc, fi)
			v := c.load(e.st.heap, fl)
			cur = sval{v, st.Field(fi).Type(), ""}
			continue
		}
		st, ok := cur.t.Underlying().(*types.Struct)
		if !ok {
			e.errorf("field of non-struct %s", cur.t)
			return cur
		}
		a, b := fieldRange(st, fi)
		cur = sval{cur.v[a:b], st.Field(fi).Type(), ""}
	}
	return cur
}

func (e *specEnv) indexExpr(x *ast.IndexExpr) sval {
	c := e.c
	base := e.eval(x.X)
	idx := e.eval(x.Index)
	if base.t == nil {
		// spec array
		inner := base.sort
		if strings.HasPrefix(inner, "(Array ") {
			args := sexprArgs(inner)
			if len(args) == 2 {
				return sval{Val{c.sel(base.v[0], idx.v[0])}, nil, args[1]}
			}
		}
		e.errorf("index of non-array spec value")
		return base
	}
	switch t := base.t.Underlying().(type) {
	case *types.Array:
		sh := shapeOf(base.t)
		out := make(Val, len(sh))
		for i := range sh {
			out[i] = c.sel(base.v[i], idx.v[0])
		}
		return sval{out, t.Elem(), ""}
	case *types.Slice:
		l := locElemOfSlice(base.v, idx.v[0], t.Elem())
		return sval{c.load(e.st.heap, l), t.Elem(), ""}
	case *types.Pointer:
		if at, ok := t.Elem().Underlying().(*types.Array); ok {
			l := locElemOfArray(locOfRef(base.v[0], t.Elem()), idx.v[0])
			return sval{c.load(e.st.heap, l), at.Elem(), ""}
		}
	case *types.Map:
		v, _ := c.mapLoad(e.st.heap, base.v[0], t, idx.v)
		// reading a nil map yields the zero value, as in code
		esh := shapeOf(t.Elem())
		out := make(Val, len(v))
		for i := range v {
			if i < len(esh) {
				out[i] = ite(neq(base.v[0], "0"), v[i], zeroLeaf(&esh[i]))
			} else {
				out[i] = v[i]
			}
		}
		return sval{out, t.Elem(), ""}
	}
	e.errorf("unsupported index expression %s", exprString(x))
	return sval{Val{"0"}, tInt, ""}
}

func (e *specEnv) sliceExpr(x *ast.SliceExpr) sval {
	// g[:] for a package-level array variable: the slice over the variable's own storage
	if id, ok := x.X.(*ast.Ident); ok && x.Low == nil && x.High == nil && e.pkg != nil {
		if _, bound := e.vars[id.Name]; !bound {
			if obj, ok := e.pkg.Scope().Lookup(id.Name).(*types.Var); ok {
				if at, ok := obj.Type().Underlying().(*types.Array); ok {
					if sp := e.c.eng.prog.Package(obj.Pkg()); sp != nil {
						if g, ok := sp.Members[obj.Name()].(*ssa.Global); ok {
							e.c.seeGlobal(g)
							n := num(at.Len())
							return sval{Val{num(e.c.eng.globalRef(g)), "0", n, n}, types.NewSlice(at.Elem()), ""}
						}
					}
				}
			}
		}
	}
	base := e.eval(x.X)
	if base.t == nil {
		e.errorf("slice of spec value")
		return base
	}
	sl, ok := base.t.Underlying().(*types.Slice)
	if !ok {
		e.errorf("slice expression on non-slice")
		return base
	}
	lo := "0"
	hi := base.v[2]
	if x.Low != nil {
		lo = e.eval(x.Low).v[0]
	}
	if x.High != nil {
		hi = e.eval(x.High).v[0]
	}
	_ = sl
	return sval{Val{base.v[0], addOff(base.v[1], lo), sub0(hi, lo), sub0(base.v[3], lo)}, base.t, ""}
}

func (e *specEnv) callExpr(x *ast.CallExpr) sval {
	c := e.c
	name := ""
	switch fn := x.Fun.(type) {
	case *ast.Ident:
		name = fn.Name
	case *ast.SelectorExpr:
		// method call on a value or pkg.Func
		return e.methodCall(x, fn)
	}
	switch name {
	case "old":
		if e.old == nil {
			return e.eval(x.Args[0])
		}
		return e.old.eval(x.Args[0])
	case "len", "cap":
		a := e.eval(x.Args[0])
		if a.t == nil {
			e.errorf("len of spec value")
			return sval{Val{"0"}, tInt, ""}
		}
		switch t := a.t.Underlying().(type) {
		case *types.Slice:
			if name == "len" {
				return sval{Val{a.v[2]}, tInt, ""}
			}
			return sval{Val{a.v[3]}, tInt, ""}
		case *types.Basic:
			return sval{Val{app("strlen", a.v[0])}, tInt, ""}
		case *types.Array:
			return sval{Val{num(t.Len())}, tInt, ""}
		case *types.Map:
			return sval{Val{c.mapLen(e.st.heap, a.v[0], t)}, tInt, ""}
		case *types.Pointer:
			if at, ok := t.Elem().Underlying().(*types.Array); ok {
				return sval{Val{num(at.Len())}, tInt, ""}
			}
		}
		e.errorf("len of %s", a.t)
		return sval{Val{"0"}, tInt, ""}
	case "bigv", "u256":
		a := e.eval(x.Args[0])
		if a.t == nil {
			return a
		}
		pt, ok := a.t.Underlying().(*types.Pointer)
		if !ok {
			// value
			return sval{Val{a.v[0]}, tInt, ""}
		}
		v := c.load(e.st.heap, locOfRef(a.v[0], pt.Elem()))
		return sval{Val{v[0]}, tInt, ""}
	case "forall", "exists":
		// forall(i, lo, hi, body) : lo <= i < hi
		if len(x.Args) != 4 {
			e.errorf("forall(i, lo, hi, body)")
			return sval{Val{sFalse}, tBool, ""}
		}
		id, ok := x.Args[0].(*ast.Ident)
		if !ok {
			e.errorf("forall: first argument must be an identifier")
			return sval{Val{sFalse}, tBool, ""}
		}
		lo := e.eval(x.Args[1]).v[0]
		hi := e.eval(x.Args[2]).v[0]
		// small constant ranges are expanded
		if l, ok1 := litInt(lo); ok1 {
			if h, ok2 := litInt(hi); ok2 && h-l <= 64 {
				var parts []string
				for k := l; k < h; k++ {
					ne := e.clone()
					ne.vars[id.Name] = sval{Val{num(k)}, tInt, ""}
					if e.old != nil {
						no := e.old.clone()
						no.vars[id.Name] = ne.vars[id.Name]
						ne.old = no
					}
					parts = append(parts, ne.eval(x.Args[3]).v[0])
				}
				if name == "forall" {
					return sval{Val{and(parts...)}, tBool, ""}
				}
				return sval{Val{or(parts...)}, tBool, ""}
			}
		}
		q := c.qvar()
		ne := e.clone()
		ne.vars[id.Name] = sval{Val{q}, tInt, ""}
		if e.old != nil {
			no := e.old.clone()
			no.vars[id.Name] = ne.vars[id.Name]
			ne.old = no
		}
		c.noBind++
		body := ne.eval(x.Args[3]).v[0]
		c.noBind--
		rng := and(le(lo, q), lt(q, hi))
		c.stats.quantified++
		if name == "forall" {
			return sval{Val{fmt.Sprintf("(forall ((%s Int)) (=> %s %s))", q, rng, body)}, tBool, ""}
		}
		return sval{Val{fmt.Sprintf("(exists ((%s Int)) (and %s %s))", q, rng, body)}, tBool, ""}
	case "ite":
		cnd := e.eval(x.Args[0])
		a := e.eval(x.Args[1])
		b := e.eval(x.Args[2])
		out := make(Val, len(a.v))
		for i := range a.v {
			out[i] = ite(cnd.v[0], a.v[i], b.v[i])
		}
		return sval{out, a.t, a.sort}
	case "typeis":
		// typeis(x, "pkg.T") / typeis(x, "*pkg.T")
		a := e.eval(x.Args[0])
		lit, ok := x.Args[1].(*ast.BasicLit)
		if !ok {
			e.errorf("typeis: second argument must be a string literal")
			return sval{Val{sFalse}, tBool, ""}
		}
		s, _ := strconv.Unquote(lit.Value)
		id := c.eng.typeIDByShortName(s)
		if id == 0 {
			e.errorf("typeis: unknown type %s", s)
		}
		return sval{Val{eq(a.v[0], num(int64(id)))}, tBool, ""}
	case "at":
		// at(ref, "pkg.T"): the value of type T stored at reference ref
		a := e.eval(x.Args[0])
		lit, ok := x.Args[1].(*ast.BasicLit)
		if !ok {
			e.errorf("at: second argument must be a string literal")
			return sval{Val{sFalse}, tBool, ""}
		}
		s, _ := strconv.Unquote(lit.Value)
		id := c.eng.typeIDByShortName(s)
		t := c.eng.typeByID[id]
		if t == nil {
			e.errorf("at: unknown type %s", s)
			return sval{Val{sFalse}, tBool, ""}
		}
		return sval{c.load(e.st.heap, locOfRef(a.v[len(a.v)-1], t)), t, ""}
	case "fresh":
		// fresh(ref): allocated during the call
		a := e.eval(x.Args[0])
		r := a.v[len(a.v)-1]
		if a.t != nil {
			if _, isS := a.t.Underlying().(*types.Slice); isS {
				r = a.v[0]
			}
		}
		lo := "0"
		if e.old != nil {
			lo = e.old.st.alloc.term()
		}
		return sval{Val{and(ge(r, lo), lt(r, e.st.alloc.term()))}, tBool, ""}
	case "allocated":
		// allocated(ref): the reference denotes an object that exists in the current state
		a := e.eval(x.Args[0])
		return sval{Val{lt(a.v[len(a.v)-1], e.st.alloc.term())}, tBool, ""}
	case "before":
		// before(a, b): object a was allocated before object b (allocation order of references);
		// a strictly increasing sequence of references is in particular pairwise distinct
		a := e.eval(x.Args[0])
		b := e.eval(x.Args[1])
		return sval{Val{lt(a.v[len(a.v)-1], b.v[len(b.v)-1])}, tBool, ""}
	case "same":
		// same(a, b): full (extensional) equality of all leaves
		a := e.eval(x.Args[0])
		b := e.eval(x.Args[1])
		if len(a.v) != len(b.v) {
			e.errorf("same: shape mismatch")
			return sval{Val{sFalse}, tBool, ""}
		}
		var parts []string
		for i := range a.v {
			parts = append(parts, eq(a.v[i], b.v[i]))
		}
		return sval{Val{and(parts...)}, tBool, ""}
	case "pow":
		// pow(x, y): x**y as computed by big.Int.Exp(x, y, nil)
		a := e.eval(x.Args[0])
		b := e.eval(x.Args[1])
		if xl, ok := litBig(a.v[0]); ok {
			if yl, ok2 := litBig(b.v[0]); ok2 && yl.Sign() >= 0 && yl.BitLen() <= 16 {
				return sval{Val{numBig(new(big.Int).Exp(xl, yl, nil))}, tInt, ""}
			}
		}
		return sval{Val{app(c.uf("bigexp", []string{"Int", "Int", "Int"}, "Int"), a.v[0], b.v[0], "0")}, tInt, ""}
	case "in":
		// in(m, k): key k is present in map m
		m := e.eval(x.Args[0])
		k := e.eval(x.Args[1])
		mt, ok := m.t.Underlying().(*types.Map)
		if m.t == nil || !ok {
			e.errorf("in: first argument must be a map")
			return sval{Val{sFalse}, tBool, ""}
		}
		_, present := c.mapLoad(e.st.heap, m.v[0], mt, k.v)
		return sval{Val{and(neq(m.v[0], "0"), present)}, tBool, ""}
	case "string":
		// string(b): the string with the bytes of slice b (same encoding as the conversion in code)
		a := e.eval(x.Args[0])
		if a.t != nil {
			if sl, ok := a.t.Underlying().(*types.Slice); ok {
				mem := "E|" + elemKey(sl.Elem()) + "|"
				arr := c.sel(c.heapGet(e.st.heap, mem, memSort("Int", 2)), a.v[0])
				fn := c.uf("str_of_bytes", []string{arrSort("Int"), "Int", "Int"}, "Str")
				return sval{Val{app(fn, arr, a.v[1], a.v[2])}, types.Typ[types.String], ""}
			}
			if isString(a.t) {
				return a
			}
		}
		e.errorf("string(x): unsupported argument")
		return sval{Val{"|str!empty|"}, types.Typ[types.String], ""}
	case "canon":
		// canon(arr, n): the array that agrees with arr on 0..n-1 and is 0 elsewhere (so that arrays
		// equal on their Go range are equal as SMT values)
		a := e.eval(x.Args[0])
		n, ok := litInt(e.eval(x.Args[1]).v[0])
		if !ok || n < 0 || n > 64 {
			e.errorf("canon: second argument must be a literal in 0..64")
			return a
		}
		arr := constArr("(Array Int Int)", "0")
		for i := int64(0); i < n; i++ {
			arr = sto(arr, num(i), c.sel(a.v[0], num(i)))
		}
		return sval{Val{c.bind("canon", "(Array Int Int)", arr)}, nil, "(Array Int Int)"}
	case "subsetStr":
		// subsetStr(a, b): every string in set a (Array Str Bool) is in set b
		a := e.eval(x.Args[0])
		b := e.eval(x.Args[1])
		q := c.qvar()
		c.stats.quantified++
		return sval{Val{fmt.Sprintf("(forall ((%s Str)) (=> (select %s %s) (select %s %s)))", q, a.v[0], q, b.v[0], q)}, tBool, ""}
	case "emptyStrSet":
		return sval{Val{"((as const (Array Str Bool)) false)"}, nil, "(Array Str Bool)"}
	case "typeid":
		lit, ok := x.Args[0].(*ast.BasicLit)
		if !ok {
			e.errorf("typeid: argument must be a string literal")
			return sval{Val{"0"}, tInt, ""}
		}
		s, _ := strconv.Unquote(lit.Value)
		id := c.eng.typeIDByShortName(s)
		if id == 0 {
			e.errorf("typeid: unknown type %s", s)
		}
		return sval{Val{num(int64(id))}, tInt, ""}
	case "dyn":
		// dyn(x): the payload reference of an interface value
		a := e.eval(x.Args[0])
		return sval{Val{a.v[1]}, tInt, ""}
	case "sel":
		a := e.eval(x.Args[0])
		i := e.eval(x.Args[1])
		args := sexprArgs(a.sort)
		rs := "Int"
		if len(args) == 2 {
			rs = args[1]
		}
		return sval{Val{c.sel(a.v[0], i.v[0])}, nil, rs}
	case "upd":
		a := e.eval(x.Args[0])
		i := e.eval(x.Args[1])
		v := e.eval(x.Args[2])
		return sval{Val{sto(a.v[0], i.v[0], v.v[0])}, nil, a.sort}
	case "abs":
		a := e.eval(x.Args[0])
		return sval{Val{app("abs", a.v[0])}, tInt, ""}
	case "quo":
		// truncated quotient (Go's / on integers, big.Int.Quo)
		a := e.eval(x.Args[0])
		b := e.eval(x.Args[1])
		return sval{Val{goQuo(a.v[0], b.v[0], false)}, tInt, ""}
	case "rem":
		a := e.eval(x.Args[0])
		b := e.eval(x.Args[1])
		return sval{Val{goRem(a.v[0], b.v[0], false)}, tInt, ""}
	case "min":
		a := e.eval(x.Args[0])
		b := e.eval(x.Args[1])
		return sval{Val{ite(lt(a.v[0], b.v[0]), a.v[0], b.v[0])}, tInt, ""}
	case "max":
		a := e.eval(x.Args[0])
		b := e.eval(x.Args[1])
		return sval{Val{ite(gt(a.v[0], b.v[0]), a.v[0], b.v[0])}, tInt, ""}
	case "be":
		// be(slice): big-endian value of a byte slice; be(array) for fixed arrays
		a := e.eval(x.Args[0])
		if len(x.Args) == 2 {
			n := e.eval(x.Args[1])
			fn := c.uf("be", []string{arrSort("Int"), "Int", "Int"}, "Int")
			return sval{Val{app(fn, a.v[0], "0", n.v[0])}, tInt, ""}
		}
		if a.t == nil {
			e.errorf("be(x): x has no Go type; use be(x, n)")
		}
		return sval{Val{c.beValue(e.st.heap, a)}, tInt, ""}
	case "ref":
		// ref(p): the reference value of a pointer-like expression
		a := e.eval(x.Args[0])
		return sval{Val{a.v[0]}, tInt, ""}
	case "tag":
		a := e.eval(x.Args[0])
		return sval{Val{a.v[0]}, tInt, ""}
	}
	// user-declared uninterpreted functions
	if sf, ok := c.eng.specFuns[name]; ok {
		var args []string
		for _, a := range x.Args {
			v := e.eval(a)
			args = append(args, v.v...)
		}
		fn := c.uf("spec|"+name, sf.Args, sf.Ret)
		if len(args) != len(sf.Args) {
			e.errorf("spec function %s: %d leaves given, %d expected", name, len(args), len(sf.Args))
			return sval{Val{c.fresh("bad", sf.Ret)}, nil, sf.Ret}
		}
		var t types.Type
		if sf.Ret == "Int" {
			t = tInt
		} else if sf.Ret == "Bool" {
			t = tBool
		}
		return sval{Val{app(fn, args...)}, t, sf.Ret}
	}
	if d, ok := c.eng.specDefs[name]; ok {
		if len(d.Params) != len(x.Args) {
			e.errorf("define %s: wrong number of arguments", name)
			return sval{Val{sFalse}, tBool, ""}
		}
		ne := e.clone()
		for i, p := range d.Params {
			ne.vars[p] = e.eval(x.Args[i])
		}
		if e.old != nil {
			no := e.old.clone()
			for i, p := range d.Params {
				no.vars[p] = ne.vars[p]
				_ = i
			}
			ne.old = no
		}
		return ne.eval(d.Body)
	}
	// pure Go function of the package
	if e.pkg != nil {
		if obj, ok := e.pkg.Scope().Lookup(name).(*types.Func); ok {
			return e.goCall(obj, nil, x.Args)
		}
		// conversion T(x)
		if tn, ok := e.pkg.Scope().Lookup(name).(*types.TypeName); ok {
			a := e.eval(x.Args[0])
			return sval{a.v, tn.Type(), ""}
		}
	}
	if tn, ok := types.Universe.Lookup(name).(*types.TypeName); ok && len(x.Args) == 1 {
		a := e.eval(x.Args[0])
		if isInteger(tn.Type()) {
			return sval{Val{c.wrap(a.v[0], tn.Type())}, tn.Type(), ""}
		}
		return sval{a.v, tn.Type(), ""}
	}
	e.errorf("unknown spec function %s", name)
	return sval{Val{sFalse}, tBool, ""}
}

// beValue: big-endian integer value of a byte sequence.
func (c *Ctx) beValue(h *Heap, a sval) string {
	fn := c.uf("be", []string{arrSort("Int"), "Int", "Int"}, "Int")
	if a.t != nil {
		switch t := a.t.Underlying().(type) {
		case *types.Slice:
			arr := c.sel(c.heapGet(h, "E|uint8|", memSort("Int", 2)), a.v[0])
			return app(fn, arr, a.v[1], a.v[2])
		case *types.Array:
			return app(fn, a.v[0], "0", num(t.Len()))
		}
	}
	return app(fn, a.v[0], "0", "0")
}

// methodCall: x.M(args) in a spec: pure method of the repo, inlined.
func (e *specEnv) methodCall(x *ast.CallExpr, sel *ast.SelectorExpr) sval {
	c := e.c
	// pkg.Func(...)
	if id, ok := sel.X.(*ast.Ident); ok {
		if _, bound := e.vars[id.Name]; !bound {
			if _, isLet := e.lets[id.Name]; !isLet {
				if p := c.eng.pkgByName(id.Name); p != nil {
					if obj, ok := p.Scope().Lookup(sel.Sel.Name).(*types.Func); ok {
						return e.goCall(obj, nil, x.Args)
					}
				}
			}
		}
	}
	recv := e.eval(sel.X)
	if recv.t == nil {
		e.errorf("method call on spec value")
		return recv
	}
	obj, _, _ := types.LookupFieldOrMethod(recv.t, true, e.pkg, sel.Sel.Name)
	if obj == nil {
		if n, ok := deref(recv.t).(*types.Named); ok && n.Obj().Pkg() != nil {
			obj, _, _ = types.LookupFieldOrMethod(recv.t, true, n.Obj().Pkg(), sel.Sel.Name)
		}
	}
	m, ok := obj.(*types.Func)
	if !ok {
		e.errorf("no method %s on %s", sel.Sel.Name, recv.t)
		return sval{Val{sFalse}, tBool, ""}
	}
	return e.goCall(m, &recv, x.Args)
}

// goCall symbolically executes a Go function inside a specification (heap effects are discarded).
func (e *specEnv) goCall(obj *types.Func, recv *sval, argExprs []ast.Expr) sval {
	c := e.c
	fn := c.eng.prog.FuncValue(obj)
	if fn == nil {
		e.errorf("no SSA for %s", obj.FullName())
		return sval{Val{sFalse}, tBool, ""}
	}
	var args []Val
	sig := fn.Signature
	if recv != nil {
		rv := *recv
		// adjust receiver: value vs pointer
		want := sig.Recv().Type()
		_, wantPtr := want.Underlying().(*types.Pointer)
		_, havePtr := rv.t.Underlying().(*types.Pointer)
		if wantPtr && !havePtr {
			e.errorf("spec call %s needs addressable receiver", obj.Name())
		} else if !wantPtr && havePtr {
			rv = sval{c.load(e.st.heap, locOfRef(rv.v[0], deref(rv.t))), deref(rv.t), ""}
		}
		args = append(args, rv.v)
	}
	for i, a := range argExprs {
		v := e.eval(a)
		// untyped ints into typed params are fine; nil into slices/interfaces needs widening
		if i < sig.Params().Len() {
			pt := sig.Params().At(i).Type()
			if isUntypedNil(v.t) {
				v = sval{c.zeroVal(pt), pt, ""}
			}
		}
		args = append(args, v.v)
	}
	var resT types.Type = sig.Results()
	if sig.Results().Len() == 1 {
		resT = sig.Results().At(0).Type()
	}
	// contract / model / inline / uninterpreted
	fr := e.frame
	if fr == nil {
		fr = c.newFrame(fn, 0, nil)
	}
	reach := e.reach
	if reach == "" {
		reach = sTrue
	}
	if ct := c.eng.contracts[fn]; ct != nil && ct.Trusted {
		// a trusted function means what its contract says, in specifications as in code
		sf := c.newFrame(fn, 1, nil)
		sf.specMode = true
		res, _ := sf.applyContract(ct, fn, args, e.st, reach, nil)
		return sval{res, resT, ""}
	}
	if m := lookupModel(fn); m != nil {
		res, _, ok := m.apply(fr, fn, args, e.st, reach, nil)
		if ok {
			return sval{res, resT, ""}
		}
	}
	if len(fn.Blocks) > 0 && len(fn.Blocks) <= maxInlineBlocks {
		nf := c.newFrame(fn, 1, nil)
		nf.run(args, e.st, reach)
		if len(nf.exits) > 0 {
			var conds []string
			var vals []Val
			for _, ex := range nf.exits {
				conds = append(conds, ex.cond)
				vals = append(vals, ex.results)
			}
			return sval{c.mergeVals(conds, vals, resT), resT, ""}
		}
	}
	res := c.ufResult(fn, args, resT, reach, e.st, "")
	return sval{res, resT, ""}
}
