package main

import (
	"bytes"
	"fmt"
	"go/ast"
	"go/printer"
	"go/token"
	"go/types"
	"os"
	"path/filepath"
	"sort"
	"strings"

	"golang.org/x/tools/go/packages"
	"golang.org/x/tools/go/ssa"
	"golang.org/x/tools/go/ssa/ssautil"
)

const repoMod = "github.com/dominant-strategies/go-quai"

type Engine struct {
	repo     string
	fset     *token.FileSet
	prog     *ssa.Program
	pkgs     []*packages.Package
	spkgs    map[string]*ssa.Package // by path
	tpkgs    map[string]*types.Package
	files    map[string]*ast.File // filename -> AST
	srcCache map[string][]string

	allFuncs      map[*ssa.Function]bool
	concreteTypes []types.Type
	implCache     map[string][]*ssa.Function
	summ          map[*ssa.Function]*fnSummary
	allocSumm     map[*ssa.Function]*ModSet
	modOverride   map[string][]string
	funcTypeFrame map[string]*ModSet
	noInline      map[string]bool

	typeIDs  map[string]int
	typeByID map[int]types.Type
	globals  map[*ssa.Global]int64
	funcs    map[*ssa.Function]int64

	specFiles   []*SpecFile
	contracts   map[*ssa.Function]*Contract
	contractFns []*ssa.Function
	ifaceCts    map[string]*Contract // "pkgpath.Iface.Method"
	funcTCts    map[string]*Contract // by short type name
	ghosts      map[string]SpecFun
	specFuns    map[string]SpecFun
	specDefs    map[string]*SpecDefine
	loadErrs    []string
	sealedCache map[string]sealedRes
	flowMemo    map[string]fieldSet
	factKeys    map[string]bool
}

var defaultPkgs = []string{
	"./common/...", "./core", "./core/types", "./core/vm", "./core/state", "./core/rawdb", "./core/state/snapshot",
	"./consensus/...", "./ethdb/...", "./trie", "./crypto", "./crypto/multiset", "./rlp", "./params", "./log",
}

func loadEngine(repo string, patterns []string) (*Engine, error) {
	e := &Engine{repo: repo, spkgs: map[string]*ssa.Package{}, tpkgs: map[string]*types.Package{}, files: map[string]*ast.File{},
		srcCache: map[string][]string{}, allFuncs: map[*ssa.Function]bool{}, implCache: map[string][]*ssa.Function{},
		allocSumm: map[*ssa.Function]*ModSet{}, modOverride: map[string][]string{}, funcTypeFrame: map[string]*ModSet{},
		noInline: map[string]bool{}, typeIDs: map[string]int{}, typeByID: map[int]types.Type{}, globals: map[*ssa.Global]int64{},
		funcs: map[*ssa.Function]int64{}, contracts: map[*ssa.Function]*Contract{}, ifaceCts: map[string]*Contract{},
		funcTCts: map[string]*Contract{}, sealedCache: map[string]sealedRes{}, flowMemo: map[string]fieldSet{}, ghosts: map[string]SpecFun{}, specFuns: map[string]SpecFun{}, specDefs: map[string]*SpecDefine{}}
	cfg := &packages.Config{Mode: packages.LoadSyntax, Dir: repo, BuildFlags: []string{"-tags=verif"},
		Env: append(os.Environ(), "GOFLAGS=-mod=mod", "GOPROXY=off", "GOSUMDB=off", "GOTOOLCHAIN=local")}
	pkgs, err := packages.Load(cfg, patterns...)
	if err != nil {
		return nil, err
	}
	for _, p := range pkgs {
		for _, er := range p.Errors {
			e.loadErrs = append(e.loadErrs, er.Error())
		}
	}
	if len(e.loadErrs) > 0 {
		return nil, fmt.Errorf("package load errors: %s", strings.Join(e.loadErrs, "; "))
	}
	e.pkgs = pkgs
	prog, spkgs := ssautil.Packages(pkgs, ssa.InstantiateGenerics)
	e.prog = prog
	e.fset = prog.Fset
	for i, sp := range spkgs {
		if sp == nil {
			continue
		}
		sp.Build()
		e.spkgs[pkgs[i].PkgPath] = sp
		e.tpkgs[pkgs[i].PkgPath] = pkgs[i].Types
		for _, f := range pkgs[i].Syntax {
			e.files[e.fset.Position(f.Pos()).Filename] = f
		}
	}
	// functions and concrete types of the loaded (root) packages
	for _, sp := range e.spkgs {
		for _, m := range sp.Members {
			switch x := m.(type) {
			case *ssa.Function:
				e.addFunc(x)
			case *ssa.Type:
				t := x.Type()
				if _, isIface := t.Underlying().(*types.Interface); isIface {
					continue
				}
				if n, ok := t.(*types.Named); ok && n.TypeParams().Len() > 0 {
					continue
				}
				e.concreteTypes = append(e.concreteTypes, t)
				for _, tt := range []types.Type{t, types.NewPointer(t)} {
					ms := prog.MethodSets.MethodSet(tt)
					for i := 0; i < ms.Len(); i++ {
						if fn := prog.MethodValue(ms.At(i)); fn != nil {
							e.addFunc(fn)
						}
					}
				}
			}
		}
	}
	sort.Slice(e.concreteTypes, func(i, j int) bool {
		return types.TypeString(e.concreteTypes[i], nil) < types.TypeString(e.concreteTypes[j], nil)
	})
	// contracts
	if err := e.loadSpecs(); err != nil {
		return nil, err
	}
	e.computeSummaries()
	return e, nil
}

func (e *Engine) addFunc(fn *ssa.Function) {
	if e.allFuncs[fn] {
		return
	}
	e.allFuncs[fn] = true
	for _, an := range fn.AnonFuncs {
		e.addFunc(an)
	}
}

func (e *Engine) typeID(key string) int {
	if id, ok := e.typeIDs[key]; ok {
		return id
	}
	id := len(e.typeIDs) + 1
	e.typeIDs[key] = id
	return id
}

func (e *Engine) typeIDByShortName(s string) int {
	ptr := strings.HasPrefix(s, "*")
	s = strings.TrimPrefix(s, "*")
	i := strings.LastIndex(s, ".")
	if i < 0 {
		return 0
	}
	pkgName, tn := s[:i], s[i+1:]
	for path, tp := range e.tpkgs {
		if tp.Name() == pkgName || strings.TrimPrefix(path, repoMod+"/") == pkgName {
			if obj, ok := tp.Scope().Lookup(tn).(*types.TypeName); ok {
				var t types.Type = obj.Type()
				if ptr {
					t = types.NewPointer(t)
				}
				id := e.typeID(types.TypeString(t, nil))
				e.typeByID[id] = t
				return id
			}
		}
	}
	return 0
}

func (e *Engine) globalRef(g *ssa.Global) int64 {
	if r, ok := e.globals[g]; ok {
		return r
	}
	r := -int64(len(e.globals) + 1)
	e.globals[g] = r
	return r
}

func (e *Engine) funcRef(f *ssa.Function) int64 {
	if r, ok := e.funcs[f]; ok {
		return r
	}
	r := -int64(1000000 + len(e.funcs))
	e.funcs[f] = r
	return r
}

func (e *Engine) pkgByName(name string) *types.Package {
	var best *types.Package
	for _, tp := range e.tpkgs {
		if tp.Name() == name {
			if best == nil || len(tp.Path()) < len(best.Path()) {
				best = tp
			}
		}
	}
	if best != nil {
		return best
	}
	// imported (non-root) packages
	for _, p := range e.prog.AllPackages() {
		if p.Pkg.Name() == name {
			return p.Pkg
		}
	}
	return nil
}

func (e *Engine) pkgByPath(path string) *types.Package {
	if tp, ok := e.tpkgs[path]; ok {
		return tp
	}
	if tp, ok := e.tpkgs[repoMod+"/"+path]; ok {
		return tp
	}
	return nil
}

func (e *Engine) fileOf(p token.Pos) *ast.File {
	return e.files[e.fset.Position(p).Filename]
}

func (e *Engine) nodeText(n ast.Node) string {
	var buf bytes.Buffer
	printer.Fprint(&buf, e.fset, n)
	s := buf.String()
	s = strings.Join(strings.Fields(s), " ")
	if len(s) > 120 {
		s = s[:117] + "..."
	}
	return s
}

func (e *Engine) lineText(p token.Pos) string {
	if !p.IsValid() {
		return "?"
	}
	pos := e.fset.Position(p)
	lines, ok := e.srcCache[pos.Filename]
	if !ok {
		data, err := os.ReadFile(pos.Filename)
		if err == nil {
			lines = strings.Split(string(data), "\n")
		}
		e.srcCache[pos.Filename] = lines
	}
	if pos.Line-1 < len(lines) && pos.Line >= 1 {
		s := strings.TrimSpace(lines[pos.Line-1])
		if len(s) > 100 {
			s = s[:97] + "..."
		}
		return s
	}
	return fmt.Sprintf("line %d", pos.Line)
}

// ---------------------------------------------------------------------------
// contracts

func (e *Engine) loadSpecs() error {
	var paths []string
	for path := range e.spkgs {
		paths = append(paths, path)
	}
	sort.Strings(paths)
	for _, path := range paths {
		rel := strings.TrimPrefix(path, repoMod)
		fn := filepath.Join(e.repo, rel, "zz_verif_contracts.go")
		if _, err := os.Stat(fn); err != nil {
			continue
		}
		sf, err := parseSpecFile(fn, path)
		if err != nil {
			return err
		}
		e.specFiles = append(e.specFiles, sf)
		for _, f := range sf.Funs {
			e.specFuns[f.Name] = f
		}
		for _, g := range sf.Ghosts {
			e.ghosts[g.Name] = g
		}
		for _, d := range sf.Defines {
			e.specDefs[d.Name] = d
		}
	}
	for _, sf := range e.specFiles {
		for _, ct := range sf.Contracts {
			if ct.IsIface {
				e.ifaceCts[sf.Pkg+"."+ct.FuncName] = ct
				continue
			}
			if ct.IsFuncT {
				e.funcTCts[sf.Pkg+"."+ct.FuncName] = ct
				continue
			}
			fn, err := e.resolveFunc(sf.Pkg, ct.FuncName)
			if err != nil {
				return fmt.Errorf("%s:%d: %v", ct.File, ct.Line, err)
			}
			if _, dup := e.contracts[fn]; dup {
				return fmt.Errorf("%s:%d: duplicate contract for %s", ct.File, ct.Line, ct.FuncName)
			}
			e.contracts[fn] = ct
			e.contractFns = append(e.contractFns, fn)
			if ct.NoInline {
				e.noInline[fn.String()] = true
			}
		}
	}
	return nil
}

// resolveFunc: "Name", "(*T).Name", "(T).Name", "Outer$1" (anonymous function ordinal).
func (e *Engine) resolveFunc(pkgPath, name string) (*ssa.Function, error) {
	sp := e.spkgs[pkgPath]
	if sp == nil {
		return nil, fmt.Errorf("package %s not loaded", pkgPath)
	}
	anon := ""
	if i := strings.Index(name, "$"); i >= 0 {
		anon = name[i:]
		name = name[:i]
	}
	var fn *ssa.Function
	if strings.HasPrefix(name, "(") {
		j := strings.Index(name, ").")
		if j < 0 {
			return nil, fmt.Errorf("bad method name %q", name)
		}
		tn := name[1:j]
		mn := name[j+2:]
		ptr := strings.HasPrefix(tn, "*")
		tn = strings.TrimPrefix(tn, "*")
		obj, ok := sp.Pkg.Scope().Lookup(tn).(*types.TypeName)
		if !ok {
			return nil, fmt.Errorf("unknown type %s in %s", tn, pkgPath)
		}
		var t types.Type = obj.Type()
		if ptr {
			t = types.NewPointer(t)
		}
		sel := e.prog.MethodSets.MethodSet(t).Lookup(sp.Pkg, mn)
		if sel == nil {
			return nil, fmt.Errorf("no method %s on %s", mn, t)
		}
		fn = e.prog.MethodValue(sel)
		// a value-receiver method looked up through a pointer yields a wrapper: use the declared one
		if fn != nil && fn.Synthetic != "" {
			if f2 := e.prog.FuncValue(sel.Obj().(*types.Func)); f2 != nil {
				fn = f2
			}
		}
	} else {
		fn = sp.Func(name)
	}
	if fn == nil {
		return nil, fmt.Errorf("function %s not found in %s", name, pkgPath)
	}
	if anon != "" {
		var k int
		fmt.Sscanf(anon, "$%d", &k)
		if k < 1 || k > len(fn.AnonFuncs) {
			return nil, fmt.Errorf("no anonymous function %s in %s", anon, name)
		}
		fn = fn.AnonFuncs[k-1]
	}
	return fn, nil
}

func (e *Engine) contractOf(fn *ssa.Function) *Contract {
	if fn == nil {
		return nil
	}
	return e.contracts[fn]
}

func (e *Engine) ifaceContract(t types.Type, method string) *Contract {
	n, ok := types.Unalias(t).(*types.Named)
	if !ok || n.Obj().Pkg() == nil {
		return nil
	}
	return e.ifaceCts[n.Obj().Pkg().Path()+"."+n.Obj().Name()+"."+method]
}

func (e *Engine) funcTypeContract(t types.Type) *Contract {
	n, ok := types.Unalias(t).(*types.Named)
	if !ok || n.Obj().Pkg() == nil {
		return nil
	}
	return e.funcTCts[n.Obj().Pkg().Path()+"."+n.Obj().Name()]
}

func (e *Engine) detResult(fn *ssa.Function) bool {
	if fn.Pkg == nil {
		return true
	}
	switch fn.Pkg.Pkg.Path() {
	case "time", "math/rand", "crypto/rand", "os", "runtime", "sync", "sync/atomic":
		return false
	}
	return true
}

func (e *Engine) mayTouchGhost(fn *ssa.Function, name string) bool {
	return e.summaryOf(fn).mods.has(name)
}

// sealedImpls: type ids of the implementations of a sealed interface (one with an
// unexported method, declared in a loaded package).
func (e *Engine) sealedImpls(t types.Type) ([]int, bool) {
	key := types.TypeString(t, nil)
	if r, ok := e.sealedCache[key]; ok {
		return r.ids, r.ok
	}
	res := sealedRes{}
	defer func() { e.sealedCache[key] = res }()
	n, ok := types.Unalias(t).(*types.Named)
	if !ok || n.Obj().Pkg() == nil {
		return nil, false
	}
	it, ok := n.Underlying().(*types.Interface)
	if !ok {
		return nil, false
	}
	if _, loaded := e.spkgs[n.Obj().Pkg().Path()]; !loaded {
		return nil, false
	}
	sealed := false
	for i := 0; i < it.NumMethods(); i++ {
		if !it.Method(i).Exported() {
			sealed = true
		}
	}
	if !sealed {
		return nil, false
	}
	for _, T := range e.concreteTypes {
		nn, ok := T.(*types.Named)
		if !ok || nn.Obj().Pkg() != n.Obj().Pkg() {
			continue
		}
		for _, tt := range []types.Type{T, types.NewPointer(T)} {
			if types.Implements(tt, it) {
				id := e.typeID(types.TypeString(tt, nil))
				e.typeByID[id] = tt
				res.ids = append(res.ids, id)
			}
		}
	}
	res.ok = true
	return res.ids, true
}

type sealedRes struct {
	ids []int
	ok  bool
}
