package main

import (
	"fmt"
	"os"
	"go/ast"
	"go/token"
	"go/types"
	"sort"
	"strings"

	"golang.org/x/tools/go/ssa"
)

type ctxStats struct {
	havocCalls int
	quantified int
}

// resultVars binds result names for a signature.
func resultVars(sig *types.Signature, res Val, vars map[string]sval) {
	rs := sig.Results()
	n := rs.Len()
	for i := 0; i < n; i++ {
		a, b := tupleRange(rs, i)
		if b > len(res) {
			break
		}
		sv := sval{res[a:b], rs.At(i).Type(), ""}
		vars[fmt.Sprintf("result%d", i)] = sv
		if i == 0 {
			vars["result"] = sv
		}
		if nm := rs.At(i).Name(); nm != "" && nm != "_" {
			vars[nm] = sv
		}
		if i == n-1 && isErrorType(rs.At(i).Type()) {
			if _, ok := vars["err"]; !ok || rs.At(i).Name() == "" {
				vars["err"] = sv
			}
		}
	}
}

func isErrorType(t types.Type) bool {
	return types.TypeString(t, nil) == "error"
}

func (c *Ctx) baseEnv(fn *ssa.Function, ct *Contract, st State, reach string) *specEnv {
	env := &specEnv{c: c, vars: map[string]sval{}, st: st, reach: reach, lets: map[string]ast.Expr{}}
	if fn != nil && fn.Pkg != nil {
		env.pkg = fn.Pkg.Pkg
		env.spkg = fn.Pkg
	} else if ct != nil {
		if p := c.eng.pkgByPath(ct.Pkg); p != nil {
			env.pkg = p
		}
	}
	if ct != nil {
		for _, l := range ct.Lets {
			env.lets[l.Name] = l.Expr
		}
	}
	return env
}

func paramTypes(sig *types.Signature) []types.Type {
	var out []types.Type
	if sig.Recv() != nil {
		out = append(out, sig.Recv().Type())
	}
	for i := 0; i < sig.Params().Len(); i++ {
		out = append(out, sig.Params().At(i).Type())
	}
	return out
}

func paramNames(fn *ssa.Function, ct *Contract, sig *types.Signature) []string {
	if fn != nil && len(fn.Params) > 0 {
		var out []string
		for _, p := range fn.Params {
			out = append(out, p.Name())
		}
		return out
	}
	if ct != nil && len(ct.ParamNames) > 0 {
		return ct.ParamNames
	}
	var out []string
	if sig.Recv() != nil {
		out = append(out, sig.Recv().Name())
	}
	for i := 0; i < sig.Params().Len(); i++ {
		out = append(out, sig.Params().At(i).Name())
	}
	return out
}

// applyContract: modular call — assert requires, havoc frame, assume ensures.
func (f *frame) applyContract(ct *Contract, callee *ssa.Function, args []Val, st State, reach string, site ssa.CallInstruction) (Val, State) {
	c := f.c
	var sig *types.Signature
	var ptypes []types.Type
	if callee != nil {
		sig = callee.Signature
		ptypes = paramTypes(sig)
	} else {
		sig = site.Common().Signature()
		// interface / functype: first arg is the receiver / function value
		ptypes = []types.Type{site.Common().Value.Type()}
		for i := 0; i < sig.Params().Len(); i++ {
			ptypes = append(ptypes, sig.Params().At(i).Type())
		}
	}
	names := paramNames(callee, ct, sig)
	var preCover *Obl
	if !f.specMode {
		preCover = c.addObl(&Obl{Name: "pre", Kind: "cover-pre", Cond: reach, Goal: sTrue, ExpectSat: true})
	}
	pre := c.baseEnv(callee, ct, st, reach)
	if callee == nil {
		pre.pkg = f.c.eng.pkgByPath(ct.Pkg)
	}
	for i, n := range names {
		if i < len(args) && i < len(ptypes) {
			pre.vars[n] = sval{args[i], ptypes[i], ""}
		}
	}
	siteName := "call"
	if site != nil {
		siteName = c.eng.posString(site.Pos())
	}
	if f.specMode {
		// inside a specification: no obligations
	} else {
		for _, r := range ct.Requires {
			if r.Assumed {
				continue // environment assumption of the callee: neither checked nor learnt here
			}
			g := c.evalBool(pre, r.Expr)
			c.addObl(&Obl{Name: fmt.Sprintf("%s/call[%s]/requires#%d", f.fn.String(), ct.FuncName, r.N), Kind: "requires",
				Cond: reach, Goal: g, Clause: r.Text, Pos: siteName, Props: r.Props})
			// after the check the precondition is known
			c.assume(reach, g)
		}
	}
	// force lets to be evaluated in the pre-state
	for _, l := range ct.Lets {
		pre.eval(&ast.Ident{Name: l.Name})
	}
	// frame
	var keep func(string) bool
	if ct.HasMod {
		mods := map[string]bool{}
		for _, m := range ct.Modifies {
			mods[m] = true
			// pointee(<param>): the object an interface-typed (or pointer) argument points to, by its static type at the call site
			if strings.HasPrefix(m, "pointee(") && strings.HasSuffix(m, ")") && site != nil {
				pn := m[len("pointee(") : len(m)-1]
				found := false
				for i, n := range names {
					if n != pn {
						continue
					}
					ai := i
					if callee == nil {
						ai = i - 1 // interface / functype contracts: first name is the receiver
					}
					if ai >= 0 && ai < len(site.Common().Args) {
						arg := site.Common().Args[ai]
						var pt types.Type
						if mi, ok := arg.(*ssa.MakeInterface); ok {
							pt = mi.X.Type()
						} else {
							pt = arg.Type()
						}
						if p, ok := pt.Underlying().(*types.Pointer); ok {
							for _, a := range locOfRef("?", p.Elem()).accs {
								mods[a.mem] = true
							}
							found = true
						}
					}
				}
				if !found {
					mods["*"] = true
				}
			}
		}
		keep = func(n string) bool {
			if mods[n] {
				return false
			}
			for m := range mods {
				if strings.HasSuffix(m, "*") && strings.HasPrefix(n, strings.TrimSuffix(m, "*")) {
					return false
				}
			}
			return true
		}
	} else if callee != nil {
		ms := c.eng.summaryOf(callee).mods
		if !ms.top {
			keep = func(n string) bool { return !ms.has(n) }
		}
	}
	if os.Getenv("GVC_TRACE_MODS") != "" {
		desc := fmt.Sprint(ct.Modifies)
		if !ct.HasMod && callee != nil {
			ms := c.eng.summaryOf(callee).mods
			desc = fmt.Sprintf("inferred top=%v %v pats=%v", ms.top, ms.list(), ms.pats)
		}
		fmt.Fprintf(os.Stderr, "MODS contract %s hasmod=%v %s\n", ct.FuncName, ct.HasMod, desc)
	}
	nh := c.heapHavoc(st.heap, "ct_"+sanitize(ct.FuncName), keep)
	{
		// package-level variables: immutable ones always survive; others only if the frame excludes them
		fm := newModSet()
		if keep == nil {
			fm.top = true
		} else {
			for _, name := range c.knownArrays() {
				if !keep(name) {
					fm.add(name)
				}
			}
			if ct.HasMod {
				for _, m := range ct.Modifies {
					if m == "*" {
						fm.top = true
					}
				}
			}
		}
		nh = c.restoreGlobals(st.heap, nh, fm)
	}
	{
		var siteInstr ssa.Instruction
		if si, ok := site.(ssa.Instruction); ok {
			siteInstr = si
		}
		nh = f.restoreLocals(st.heap, nh, siteInstr)
	}
	na := c.fresh("alloc", "Int")
	c.assume(reach, ge(na, st.alloc.term()))
	nst := State{heap: nh, alloc: allocPtr{base: na}}
	// ghost updates (evaluated in the pre-state)
	for _, g := range ct.Ghost {
		v := pre.eval(g.Expr)
		gs := c.eng.ghosts[g.Name]
		nst.heap = c.heapUpd(nst.heap, "G|"+g.Name, gs.Ret, v.v[0])
	}
	var resT types.Type = sig.Results()
	res := c.freshVal("res_"+sanitize(ct.FuncName), resT, reach, na)
	post := c.baseEnv(callee, ct, nst, reach)
	post.pkg = pre.pkg
	post.old = pre
	for k, v := range pre.vars {
		post.vars[k] = v
	}
	resultVars(sig, res, post.vars)
	for _, e := range ct.Ensures {
		g := c.evalBool(post, e.Expr)
		c.assume(reach, g)
	}
	c.usedContracts[ct] = true
	if !f.specMode {
		// vacuity guard: the assumptions just made must leave the call site reachable
		o := c.addObl(&Obl{Name: fmt.Sprintf("%s/call[%s]/cover@%s", f.fn.String(), ct.FuncName, siteName), Kind: "cover", Cond: reach, Goal: sTrue, ExpectSat: true,
			Clause: "path remains satisfiable after assuming the callee's postconditions", Props: f.coverProps()})
		o.Pre = preCover
		preCover.Name = o.Name + "/pre"
	}
	return res, nst
}

func (f *frame) coverProps() []string {
	return nil
}

// specEnvAt: environment for loop invariants at a header block.
func (f *frame) specEnvAt(b *ssa.BasicBlock, st State) *specEnv {
	c := f.c
	env := c.baseEnv(f.fn, f.contract, st, f.reach[b])
	for i, p := range f.fn.Params {
		if i < len(f.params) {
			env.vars[p.Name()] = sval{f.params[i], p.Type(), ""}
		}
	}
	// loop-carried variables by source name (phi comments); innermost header wins
	for _, in := range b.Instrs {
		phi, ok := in.(*ssa.Phi)
		if !ok {
			break
		}
		if phi.Comment != "" {
			env.vars[phi.Comment] = sval{f.vals[phi], phi.Type(), ""}
		}
		if phi.Comment == "rangeindex" {
			// the slice ranged over: operand of the element address computed from rangeindex+1
			if sl := rangedSlice(phi); sl != nil {
				env.vars["rangeslice"] = sval{f.get(sl), sl.Type(), ""}
			}
		}
	}
	// entry environment for old()
	old := c.baseEnv(f.fn, f.contract, f.entry, sTrue)
	for i, p := range f.fn.Params {
		if i < len(f.params) {
			old.vars[p.Name()] = sval{f.params[i], p.Type(), ""}
		}
	}
	env.old = old
	if f.letCache != nil {
		for k, v := range f.letCache {
			env.vars[k] = v
			old.vars[k] = v
		}
	}
	return env
}

// exitFingerprint names a return site by its nearest enclosing condition and its text.
func (e *Engine) exitFingerprint(fn *ssa.Function, ret *ssa.Return) string {
	pos := ret.Pos()
	if !pos.IsValid() {
		return fmt.Sprintf("b%d", ret.Block().Index)
	}
	file := e.fileOf(pos)
	if file == nil {
		return e.posString(pos)
	}
	var path []ast.Node
	ast.Inspect(file, func(n ast.Node) bool {
		if n == nil {
			return false
		}
		if n.Pos() <= pos && pos < n.End() {
			path = append(path, n)
			return true
		}
		return false
	})
	var retTxt, condTxt string
	for i := len(path) - 1; i >= 0; i-- {
		switch n := path[i].(type) {
		case *ast.ReturnStmt:
			if retTxt == "" {
				retTxt = e.nodeText(n)
			}
		case *ast.IfStmt:
			if condTxt == "" && i+1 < len(path) {
				// inside body or else?
				br := "if"
				if n.Else != nil && path[i+1] == n.Else {
					br = "else-of"
				} else if path[i+1] != n.Body {
					continue
				}
				condTxt = br + " " + e.nodeText(n.Cond)
			}
		case *ast.CaseClause:
			if condTxt == "" {
				var parts []string
				for _, x := range n.List {
					parts = append(parts, e.nodeText(x))
				}
				if len(parts) == 0 {
					condTxt = "default"
				} else {
					condTxt = "case " + strings.Join(parts, ",")
				}
			}
		case *ast.FuncLit:
			i = -1
		}
	}
	if retTxt == "" {
		retTxt = "return"
	}
	if condTxt == "" {
		return retTxt
	}
	return condTxt + ": " + retTxt
}

type FuncReport struct {
	Func       string
	Blocks     int
	Instrs     int
	Loops      int
	Notes      map[string]int
	SpecErrs   []string
	Obls       []*Obl
	Exits      int
	HavocCalls int
	// contracts relied upon at call sites without being verified against a body here
	UsedTrusted []string
}

// verifyFunction generates the obligations of one function under contract.
func (e *Engine) verifyFunction(fn *ssa.Function, ct *Contract) *FuncReport {
	c := newCtx(e, fn.String())
	c.nonlinear = ct.Nonlinear
	c.quant = ct.Quant
	rep := &FuncReport{Func: fn.String(), Blocks: len(fn.Blocks)}
	for _, b := range fn.Blocks {
		rep.Instrs += len(b.Instrs)
	}
	alloc0 := c.declare("alloc@0", "Int")
	c.asserts = append(c.asserts, ge(alloc0, "1"))
	st := State{heap: c.entryHeap(), alloc: allocPtr{base: alloc0}}
	var args []Val
	for _, p := range fn.Params {
		v := c.freshVal("in_"+p.Name(), p.Type(), sTrue, alloc0)
		args = append(args, v)
		c.inputs = append(c.inputs, v...)
	}
	c.fn, c.contract, c.entry, c.fnParams = fn, ct, st, args
	env := c.baseEnv(fn, ct, st, sTrue)
	for i, p := range fn.Params {
		env.vars[p.Name()] = sval{args[i], p.Type(), ""}
	}
	// package facts
	e.assumeFacts(c, env)
	// requires
	for _, r := range ct.Requires {
		c.assume(sTrue, c.evalBool(env, r.Expr))
	}
	letCache := map[string]sval{}
	for _, l := range ct.Lets {
		letCache[l.Name] = env.eval(&ast.Ident{Name: l.Name})
	}
	c.addObl(&Obl{Name: fn.String() + "/cover/requires", Kind: "cover", Cond: sTrue, Goal: sTrue, ExpectSat: true})
	f := c.newFrame(fn, 0, nil)
	f.top = true
	f.contract = ct
	f.safety = ct.Safety
	f.letCache = letCache
	f.run(args, st, sTrue)
	rep.Loops = len(f.loopHdr)
	rep.Exits = len(f.exits)
	// exits
	seen := map[string]int{}
	var exitConds []string
	for _, ex := range f.exits {
		fp := e.exitFingerprint(fn, ex.ret)
		seen[fp]++
		if seen[fp] > 1 {
			fp = fmt.Sprintf("%s #%d", fp, seen[fp])
		}
		exitConds = append(exitConds, ex.cond)
		post := c.baseEnv(fn, ct, ex.st, ex.cond)
		post.old = env
		for k, v := range env.vars {
			post.vars[k] = v
		}
		for k, v := range letCache {
			post.vars[k] = v
		}
		resultVars(fn.Signature, ex.results, post.vars)
		// named results that live in allocs are already loaded by the return
		for _, en := range ct.Ensures {
			if en.Assumed {
				continue
			}
			g := c.evalBool(post, en.Expr)
			c.addObl(&Obl{Name: fmt.Sprintf("%s/ensures#%d/exit[%s]", fn.String(), en.N, fp), Kind: "ensures",
				Cond: ex.cond, Goal: g, Clause: en.Text, Exit: fp, Pos: e.posString(ex.ret.Pos()), Props: en.Props})
		}
		if len(ct.Ensures) > 0 {
			// vacuity guard per exit: an unreachable exit satisfies every postcondition trivially
			c.addObl(&Obl{Name: fmt.Sprintf("%s/cover/exit[%s]", fn.String(), fp), Kind: "cover-exit", Cond: ex.cond, Goal: sTrue, ExpectSat: true, Exit: fp})
		}
	}
	if ct.HasMod && len(f.exits) > 0 {
		e.frameObligations(c, fn, ct, f, alloc0)
	}
	if len(f.exits) > 0 {
		c.addObl(&Obl{Name: fn.String() + "/cover/exit", Kind: "cover", Cond: or(exitConds...), Goal: sTrue, ExpectSat: true})
		c.addObl(&Obl{Name: fn.String() + "/canary", Kind: "canary", Cond: or(exitConds...), Goal: sTrue, ExpectSat: true})
	}
	if ct.Safety {
		seenP := map[string]int{}
		for _, p := range f.panics {
			nm := fmt.Sprintf("%s/safety[%s @ %s]", fn.String(), p.what, e.lineText(p.pos))
			seenP[nm]++
			if seenP[nm] > 1 {
				nm = fmt.Sprintf("%s #%d", nm, seenP[nm])
			}
			o := c.addObl(&Obl{Name: nm, Kind: "safety", Cond: p.cond, Goal: sFalse, Clause: p.what, Pos: e.posString(p.pos)})
			if p.nAsserts > 0 && p.nAsserts < o.NAsserts {
				o.NAsserts = p.nAsserts
			}
		}
	}
	rep.Notes = c.notes
	rep.SpecErrs = c.specErrs
	rep.Obls = c.obls
	rep.HavocCalls = c.stats.havocCalls
	for uc := range c.usedContracts {
		if uc.Trusted {
			rep.UsedTrusted = append(rep.UsedTrusted, uc.Pkg+": "+uc.FuncName)
		}
		for _, en := range uc.Ensures {
			if en.Assumed {
				rep.UsedTrusted = append(rep.UsedTrusted, uc.Pkg+": "+uc.FuncName+" [assumed clause: "+en.Text+"]")
			}
		}
	}
	for _, o := range c.obls {
		if len(o.Props) == 0 {
			o.Props = ct.Props
		}
		o.ModelVars = c.inputs
	}
	return rep
}

// assumeFacts: package-level global facts and axioms.
func (e *Engine) assumeFacts(c *Ctx, env *specEnv) {
	for _, sf := range e.specFiles {
		for _, ax := range sf.Axioms {
			ne := *env
			ne.pkg = e.pkgByPath(sf.Pkg)
			c.assume(sTrue, c.evalBool(&ne, ax.Expr))
		}
		for _, g := range sf.Globals {
			ne := *env
			ne.pkg = e.pkgByPath(sf.Pkg)
			ne.vars = map[string]sval{}
			c.assume(sTrue, c.evalBool(&ne, g.Expr))
		}
	}
}

// verifyLemma: spec-only obligation.
func (e *Engine) verifyLemma(l *Lemma) *FuncReport {
	c := newCtx(e, "lemma "+l.Name)
	c.nonlinear = true
	rep := &FuncReport{Func: "lemma " + l.Name}
	alloc0 := c.declare("alloc@0", "Int")
	st := State{heap: c.entryHeap(), alloc: allocPtr{base: alloc0}}
	env := &specEnv{c: c, vars: map[string]sval{}, st: st, reach: sTrue, lets: map[string]ast.Expr{}, pkg: e.pkgByPath(l.Pkg)}
	for _, v := range l.Vars {
		v = strings.TrimSpace(v)
		sp := strings.IndexAny(v, " \t")
		if sp < 0 {
			continue
		}
		fs := []string{v[:sp], strings.TrimSpace(v[sp+1:])}
		n := c.declare("lv_"+fs[0], fs[1])
		var t types.Type
		if fs[1] == "Int" {
			t = tInt
		} else if fs[1] == "Bool" {
			t = tBool
		}
		env.vars[fs[0]] = sval{Val{n}, t, fs[1]}
		c.inputs = append(c.inputs, n)
	}
	for _, sf := range e.specFiles {
		for _, ax := range sf.Axioms {
			c.assume(sTrue, c.evalBool(env, ax.Expr))
		}
	}
	for _, h := range l.Hyps {
		c.assume(sTrue, c.evalBool(env, h.Expr))
	}
	c.addObl(&Obl{Name: "lemma " + l.Name + "/cover", Kind: "cover", Cond: sTrue, Goal: sTrue, ExpectSat: true, Props: l.Props})
	g := c.evalBool(env, l.Goal.Expr)
	c.addObl(&Obl{Name: "lemma " + l.Name, Kind: "lemma", Cond: sTrue, Goal: g, Clause: l.Goal.Text, Props: l.Props})
	rep.SpecErrs = c.specErrs
	rep.Obls = c.obls
	rep.Notes = c.notes
	for _, o := range c.obls {
		o.ModelVars = c.inputs
	}
	return rep
}

func (e *Engine) posString(p token.Pos) string {
	if !p.IsValid() {
		return "-"
	}
	pos := e.fset.Position(p)
	return fmt.Sprintf("%s:%d", strings.TrimPrefix(pos.Filename, "/repo/"), pos.Line)
}

func sortedKeys(m map[string]int) []string {
	var out []string
	for k := range m {
		out = append(out, k)
	}
	sort.Strings(out)
	return out
}

// frameObligations: with an explicit `modifies` clause, every other memory array
// must be unchanged at all pre-existing references at every exit.
func (e *Engine) frameObligations(c *Ctx, fn *ssa.Function, ct *Contract, f *frame, alloc0 string) {
	mods := map[string]bool{}
	for _, m := range ct.Modifies {
		mods[m] = true
	}
	allowed := func(n string) bool {
		if mods[n] {
			return true
		}
		for m := range mods {
			if strings.HasSuffix(m, "*") && strings.HasPrefix(n, strings.TrimSuffix(m, "*")) {
				return true
			}
		}
		return false
	}
	entry := f.entry.heap
	for _, name := range c.knownArrays() {
		if allowed(name) {
			continue
		}
		srt := c.memSorts[name]
		a0 := c.heapGet(entry, name, srt)
		var conds, goals []string
		for _, ex := range f.exits {
			a1 := c.heapGet(ex.st.heap, name, srt)
			if a1 == a0 {
				continue
			}
			conds = append(conds, ex.cond)
			if strings.HasPrefix(name, "G|") {
				goals = append(goals, implies(ex.cond, eq(a1, a0)))
				continue
			}
			q := c.qvar()
			goals = append(goals, implies(ex.cond, fmt.Sprintf("(forall ((%s Int)) (=> (< %s %s) (= (select %s %s) (select %s %s))))", q, q, alloc0, a1, q, a0, q)))
		}
		if len(goals) == 0 {
			continue
		}
		c.addObl(&Obl{Name: fmt.Sprintf("%s/frame[%s]", fn.String(), name), Kind: "frame", Cond: or(conds...), Goal: and(goals...),
			Clause: "modifies " + strings.Join(ct.Modifies, " ") + " (array " + name + " unchanged at pre-existing references)"})
	}
}

// verifyGlobals: the package-level facts (`global` clauses) are proved as postconditions of the
// package initialiser, executed symbolically from a state in which the package is not yet
// initialised. Other packages' facts are assumed (each is proved for its own package).
func (e *Engine) verifyGlobals(sf *SpecFile) *FuncReport {
	sp := e.spkgs[sf.Pkg]
	rep := &FuncReport{Func: "init of " + strings.TrimPrefix(sf.Pkg, repoMod+"/")}
	if sp == nil {
		return rep
	}
	fn := sp.Func("init")
	if fn == nil {
		return rep
	}
	c := newCtx(e, fn.String())
	rep.Blocks = len(fn.Blocks)
	for _, b := range fn.Blocks {
		rep.Instrs += len(b.Instrs)
	}
	alloc0 := c.declare("alloc@0", "Int")
	c.asserts = append(c.asserts, ge(alloc0, "1"))
	st := State{heap: c.entryHeap(), alloc: allocPtr{base: alloc0}}
	env := &specEnv{c: c, vars: map[string]sval{}, st: st, reach: sTrue, lets: map[string]ast.Expr{}, pkg: sp.Pkg, spkg: sp}
	// facts of the other packages
	for _, o := range e.specFiles {
		if o == sf {
			continue
		}
		for _, g := range o.Globals {
			ne := *env
			ne.pkg = e.pkgByPath(o.Pkg)
			c.assume(sTrue, c.evalBool(&ne, g.Expr))
		}
	}
	// not yet initialised
	if g, ok := sp.Members["init$guard"].(*ssa.Global); ok {
		v := c.load(st.heap, locOfRef(num(e.globalRef(g)), types.Typ[types.Bool]))
		c.assume(sTrue, not(v[0]))
	}
	f := c.newFrame(fn, 0, nil)
	f.top = true
	f.run(nil, st, sTrue)
	var conds []string
	for _, ex := range f.exits {
		conds = append(conds, ex.cond)
	}
	for _, g := range sf.Globals {
		var goals []string
		for _, ex := range f.exits {
			post := &specEnv{c: c, vars: map[string]sval{}, st: ex.st, reach: ex.cond, lets: map[string]ast.Expr{}, pkg: sp.Pkg, spkg: sp}
			goals = append(goals, implies(ex.cond, c.evalBool(post, g.Expr)))
		}
		c.addObl(&Obl{Name: fmt.Sprintf("%s.init/global[%s]", sf.Pkg, g.Text), Kind: "global", Cond: or(conds...), Goal: and(goals...), Clause: g.Text, Props: g.Props})
	}
	if len(f.exits) > 0 {
		c.addObl(&Obl{Name: sf.Pkg + ".init/cover/exit", Kind: "cover", Cond: or(conds...), Goal: sTrue, ExpectSat: true})
	}
	rep.Notes = c.notes
	rep.SpecErrs = c.specErrs
	rep.Obls = c.obls
	rep.Exits = len(f.exits)
	return rep
}

// rangedSlice finds the slice a `for ... range s` loop iterates over, from its rangeindex phi.
func rangedSlice(phi *ssa.Phi) ssa.Value {
	refs := phi.Referrers()
	if refs == nil {
		return nil
	}
	for _, r := range *refs {
		bo, ok := r.(*ssa.BinOp)
		if !ok || bo.Op != token.ADD {
			continue
		}
		nrefs := bo.Referrers()
		if nrefs == nil {
			continue
		}
		for _, nr := range *nrefs {
			if ia, ok := nr.(*ssa.IndexAddr); ok && ia.Index == ssa.Value(bo) {
				if _, isSlice := ia.X.Type().Underlying().(*types.Slice); isSlice {
					return ia.X
				}
			}
		}
	}
	return nil
}
