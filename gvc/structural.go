package main

// Structural obligations (back end "ssa-frame"): properties of the shape of the
// code decided by scanning the SSA of the current tree (encapsulation, field
// coverage, table invariants, dominance). Each is a named obligation.

type StructObl struct {
	Name      string
	Group     string
	Clause    string
	OK        bool
	Detail    string
	Confirmed bool
}

type structCheck struct {
	props []string
	run   func(e *Engine) []*StructObl
}

var structChecks []structCheck

func registerStruct(props []string, run func(e *Engine) []*StructObl) {
	structChecks = append(structChecks, structCheck{props: props, run: run})
}

func (e *Engine) structuralChecks(prop string) []*StructObl {
	var out []*StructObl
	for _, sc := range structChecks {
		if hasProp(sc.props, prop) {
			out = append(out, sc.run(e)...)
		}
	}
	return out
}
