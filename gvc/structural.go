package main

import (
	"fmt"
	"go/ast"
	"go/token"
	"go/types"
	"sort"
	"strings"

	"golang.org/x/tools/go/ssa"
)

// Structural obligations (back end "ssa-frame"): properties of the shape of the
// code decided by scanning the SSA of the current tree (encapsulation, field
// coverage, table invariants, dominance). Each is a named obligation.

type StructObl struct {
	Name      string
	Group     string
	Clause    string
	OK        bool
	Detail    string
	Confirmed bool
}

type structCheck struct {
	props []string
	run   func(e *Engine) []*StructObl
}

var structChecks []structCheck

func registerStruct(props []string, run func(e *Engine) []*StructObl) {
	structChecks = append(structChecks, structCheck{props: props, run: run})
}

func (e *Engine) structuralChecks(prop string) []*StructObl {
	var out []*StructObl
	for _, sc := range structChecks {
		if hasProp(sc.props, prop) {
			out = append(out, sc.run(e)...)
		}
	}
	out = append(out, e.coverChecks(prop)...)
	return out
}

// ---------------------------------------------------------------------------
// globals-immutable: package-level variables that global facts speak about are
// assigned only by their package initialiser, and the *big.Int objects they
// point to are never the receiver of a mutating method.

func init() {
	registerStruct([]string{"ALL"}, func(e *Engine) []*StructObl { return e.globalsImmutable() })
}

func (e *Engine) factGlobals() map[*ssa.Global]string {
	out := map[*ssa.Global]string{}
	for _, sf := range e.specFiles {
		sp := e.spkgs[sf.Pkg]
		if sp == nil {
			continue
		}
		for _, name := range sf.Immutable {
			if gv, ok := sp.Members[name].(*ssa.Global); ok {
				out[gv] = strings.TrimPrefix(sf.Pkg, repoMod+"/") + "." + name
			}
		}
		for _, g := range sf.Globals {
			ast.Inspect(g.Expr, func(n ast.Node) bool {
				if id, ok := n.(*ast.Ident); ok {
					if gv, ok := sp.Members[id.Name].(*ssa.Global); ok {
						out[gv] = strings.TrimPrefix(sf.Pkg, repoMod+"/") + "." + id.Name
					}
				}
				return true
			})
		}
	}
	return out
}

func (e *Engine) globalsImmutable() []*StructObl {
	facts := e.factGlobals()
	viol := map[*ssa.Global][]string{}
	for fn := range e.allFuncs {
		if fn.Synthetic == "package initializer" {
			continue
		}
		for _, b := range fn.Blocks {
			for _, in := range b.Instrs {
				switch x := in.(type) {
				case *ssa.Store:
					if g := globalRoot(x.Addr, 0); g != nil {
						if _, ok := facts[g]; ok {
							viol[g] = append(viol[g], "assigned in "+fn.String()+" at "+e.posString(x.Pos()))
						}
					}
				case ssa.CallInstruction:
					com := x.Common()
					callee, ok := com.Value.(*ssa.Function)
					if !ok || len(com.Args) == 0 {
						continue
					}
					m := lookupModel(callee)
					if m == nil || len(m.mods) == 0 {
						continue
					}
					// receiver loaded directly from a fact global?
					if ld, ok := com.Args[0].(*ssa.UnOp); ok && ld.Op == token.MUL {
						if g, ok := ld.X.(*ssa.Global); ok {
							if _, isFact := facts[g]; isFact {
								viol[g] = append(viol[g], "mutated by "+callee.Name()+" in "+fn.String()+" at "+e.posString(in.Pos()))
							}
						}
					}
				}
			}
		}
	}
	var names []string
	byName := map[string]*ssa.Global{}
	for g, n := range facts {
		names = append(names, n)
		byName[n] = g
	}
	sort.Strings(names)
	var out []*StructObl
	for _, n := range names {
		g := byName[n]
		o := &StructObl{Name: "globals-immutable/" + n, Group: "globals-immutable/" + n, Clause: "package-level variable " + n + " is assigned only by its package initialiser and never mutated in place", OK: len(viol[g]) == 0}
		if !o.OK {
			sort.Strings(viol[g])
			o.Detail = strings.Join(viol[g], "; ")
		} else {
			o.Detail = "no store and no mutating big.Int/uint256 method call on it outside the initialiser (whole-program SSA scan)"
		}
		out = append(out, o)
	}
	return out
}

// ---------------------------------------------------------------------------
// field coverage: every field of struct T (except the declared exclusions) flows into
// the result of an encoder function (intra-procedural taint over the SSA, with getter
// summaries computed the same way).

func init() {
	registerStruct([]string{"ALL"}, func(e *Engine) []*StructObl { return nil })
}

type fieldSet map[string]bool

func (a fieldSet) union(b fieldSet) bool {
	ch := false
	for k := range b {
		if !a[k] {
			a[k] = true
			ch = true
		}
	}
	return ch
}

func isTypeOrPtr(t types.Type, T types.Type) bool {
	if types.Identical(t, T) {
		return true
	}
	if p, ok := t.Underlying().(*types.Pointer); ok {
		return types.Identical(p.Elem(), T)
	}
	return false
}

// fieldFlow: fields of T whose values may flow into the results of fn.
func (e *Engine) fieldFlow(fn *ssa.Function, T types.Type, depth int, stack map[*ssa.Function]bool) fieldSet {
	key := fn.String() + "|" + types.TypeString(T, nil)
	if r, ok := e.flowMemo[key]; ok {
		return r
	}
	out := fieldSet{}
	if depth > 5 || stack[fn] || len(fn.Blocks) == 0 {
		return out
	}
	stack[fn] = true
	defer delete(stack, fn)
	st, ok := T.Underlying().(*types.Struct)
	if !ok {
		return out
	}
	taint := map[ssa.Value]fieldSet{}
	get := func(v ssa.Value) fieldSet { return taint[v] }
	add := func(v ssa.Value, fs fieldSet) bool {
		if len(fs) == 0 || v == nil {
			return false
		}
		t := taint[v]
		if t == nil {
			t = fieldSet{}
			taint[v] = t
		}
		return t.union(fs)
	}
	rootObj := func(v ssa.Value) ssa.Value {
		for i := 0; i < 20; i++ {
			switch x := v.(type) {
			case *ssa.FieldAddr:
				v = x.X
			case *ssa.IndexAddr:
				v = x.X
			case *ssa.ChangeType:
				v = x.X
			case *ssa.Slice:
				v = x.X
			default:
				return v
			}
		}
		return v
	}
	changed := true
	for iter := 0; changed && iter < 50; iter++ {
		changed = false
		for _, b := range fn.Blocks {
			for _, in := range b.Instrs {
				switch x := in.(type) {
				case *ssa.FieldAddr:
					if isTypeOrPtr(x.X.Type(), T) {
						if add(x, fieldSet{st.Field(x.Field).Name(): true}) {
							changed = true
						}
					}
					if add(x, get(x.X)) {
						changed = true
					}
				case *ssa.Field:
					if types.Identical(x.X.Type(), T) {
						if add(x, fieldSet{st.Field(x.Field).Name(): true}) {
							changed = true
						}
					}
					if add(x, get(x.X)) {
						changed = true
					}
				case *ssa.Store:
					if fs := get(x.Val); len(fs) > 0 {
						if add(rootObj(x.Addr), fs) {
							changed = true
						}
						if add(x.Addr, fs) {
							changed = true
						}
					}
				case *ssa.MapUpdate:
					fs := fieldSet{}
					fs.union(get(x.Key))
					fs.union(get(x.Value))
					if add(x.Map, fs) {
						changed = true
					}
				case ssa.CallInstruction:
					com := x.Common()
					fs := fieldSet{}
					for _, a := range com.Args {
						fs.union(get(a))
					}
					if com.IsInvoke() {
						fs.union(get(com.Value))
					}
					// getter summaries: callee receives the T object itself
					if callee, ok := com.Value.(*ssa.Function); ok {
						for _, a := range com.Args {
							if isTypeOrPtr(a.Type(), T) {
								fs.union(e.fieldFlow(callee, T, depth+1, stack))
							}
						}
					}
					if v, ok := x.(ssa.Value); ok {
						if add(v, fs) {
							changed = true
						}
					}
					// destination arguments (copy/append/Write-like): pointer and slice arguments receive the taint
					if len(fs) > 0 {
						for i, a := range com.Args {
							if i == 0 || true {
								switch a.Type().Underlying().(type) {
								case *types.Pointer, *types.Slice, *types.Map:
									if !isTypeOrPtr(a.Type(), T) {
										if add(rootObj(a), fs) {
											changed = true
										}
									}
								}
							}
						}
					}
				case ssa.Value:
					fs := fieldSet{}
					var ops []*ssa.Value
					for _, op := range in.Operands(ops) {
						if *op != nil {
							fs.union(get(*op))
						}
					}
					if add(x, fs) {
						changed = true
					}
				}
			}
		}
	}
	for _, b := range fn.Blocks {
		for _, in := range b.Instrs {
			if r, ok := in.(*ssa.Return); ok {
				for _, v := range r.Results {
					out.union(get(v))
					out.union(get(rootObj(v)))
				}
			}
		}
	}
	e.flowMemo[key] = out
	return out
}

func (e *Engine) coverChecks(prop string) []*StructObl {
	var out []*StructObl
	for _, sf := range e.specFiles {
		for _, cv := range sf.Covers {
			if !hasProp(cv.Props, prop) {
				continue
			}
			grp := fmt.Sprintf("covers/%s/%s", cv.Func, cv.Type)
			fn, err := e.resolveFunc(sf.Pkg, cv.Func)
			sp := e.spkgs[sf.Pkg]
			var T types.Type
			if sp != nil {
				if tn, ok := sp.Pkg.Scope().Lookup(cv.Type).(*types.TypeName); ok {
					T = tn.Type()
				}
			}
			if err != nil || T == nil {
				out = append(out, &StructObl{Name: grp, Group: grp, Clause: "covers " + cv.Func, OK: false, Detail: fmt.Sprintf("cannot resolve function or type: %v", err)})
				continue
			}
			st, ok := T.Underlying().(*types.Struct)
			if !ok {
				continue
			}
			flows := e.fieldFlow(fn, T, 0, map[*ssa.Function]bool{})
			exc := map[string]bool{}
			for _, x := range cv.Except {
				exc[x] = true
			}
			for i := 0; i < st.NumFields(); i++ {
				f := st.Field(i).Name()
				if exc[f] {
					continue
				}
				o := &StructObl{Name: grp + "/" + f, Group: grp, Clause: fmt.Sprintf("field %s.%s flows into the result of %s", cv.Type, f, cv.Func), OK: flows[f]}
				if o.OK {
					o.Detail = "data-flow path from the field to the returned value found in the SSA"
				} else {
					o.Detail = fmt.Sprintf("no data flow from %s.%s into the result of %s (field dropped from the encoding?)", cv.Type, f, cv.Func)
				}
				out = append(out, o)
			}
			// exclusions must name real fields
			for x := range exc {
				found := false
				for i := 0; i < st.NumFields(); i++ {
					if st.Field(i).Name() == x {
						found = true
					}
				}
				if !found {
					out = append(out, &StructObl{Name: grp + "/except-" + x, Group: grp, Clause: "declared exclusion names a field", OK: false, Detail: "no such field " + x})
				}
			}
		}
	}
	return out
}

func (e *Engine) factGlobalKeys() map[string]bool {
	if e.factKeys != nil {
		return e.factKeys
	}
	e.factKeys = map[string]bool{}
	for g := range e.factGlobals() {
		e.factKeys[globalKey(g)] = true
	}
	return e.factKeys
}
