package main

import (
	"fmt"
	"go/ast"
	"go/token"
	"go/types"
	"sort"
	"strings"

	"golang.org/x/tools/go/ssa"
)

// Structural obligations (back end "ssa-frame"): properties of the shape of the
// code decided by scanning the SSA of the current tree (encapsulation, field
// coverage, table invariants, dominance). Each is a named obligation.

type StructObl struct {
	Name      string
	Group     string
	Clause    string
	OK        bool
	Detail    string
	Confirmed bool
}

type structCheck struct {
	props []string
	run   func(e *Engine) []*StructObl
}

var structChecks []structCheck

func registerStruct(props []string, run func(e *Engine) []*StructObl) {
	structChecks = append(structChecks, structCheck{props: props, run: run})
}

func (e *Engine) structuralChecks(prop string) []*StructObl {
	var out []*StructObl
	for _, sc := range structChecks {
		if hasProp(sc.props, prop) {
			out = append(out, sc.run(e)...)
		}
	}
	out = append(out, e.coverChecks(prop)...)
	out = append(out, e.journalChecks(prop)...)
	out = append(out, e.fieldPairChecks(prop)...)
	return out
}

// ---------------------------------------------------------------------------
// globals-immutable: package-level variables that global facts speak about are
// assigned only by their package initialiser, and the *big.Int objects they
// point to are never the receiver of a mutating method.

func init() {
	registerStruct([]string{"ALL"}, func(e *Engine) []*StructObl { return e.globalsImmutable() })
}

func (e *Engine) factGlobals() map[*ssa.Global]string {
	out := map[*ssa.Global]string{}
	for _, sf := range e.specFiles {
		sp := e.spkgs[sf.Pkg]
		if sp == nil {
			continue
		}
		for _, name := range sf.Immutable {
			if gv, ok := sp.Members[name].(*ssa.Global); ok {
				out[gv] = strings.TrimPrefix(sf.Pkg, repoMod+"/") + "." + name
			}
		}
		for _, g := range sf.Globals {
			ast.Inspect(g.Expr, func(n ast.Node) bool {
				if id, ok := n.(*ast.Ident); ok {
					if gv, ok := sp.Members[id.Name].(*ssa.Global); ok {
						out[gv] = strings.TrimPrefix(sf.Pkg, repoMod+"/") + "." + id.Name
					}
				}
				return true
			})
		}
	}
	return out
}

func (e *Engine) globalsImmutable() []*StructObl {
	facts := e.factGlobals()
	viol := map[*ssa.Global][]string{}
	for fn := range e.allFuncs {
		if fn.Synthetic == "package initializer" {
			continue
		}
		for _, b := range fn.Blocks {
			for _, in := range b.Instrs {
				switch x := in.(type) {
				case *ssa.Store:
					if g := globalRoot(x.Addr, 0); g != nil {
						if _, ok := facts[g]; ok {
							viol[g] = append(viol[g], "assigned in "+fn.String()+" at "+e.posString(x.Pos()))
						}
					}
				case ssa.CallInstruction:
					com := x.Common()
					callee, ok := com.Value.(*ssa.Function)
					if !ok || len(com.Args) == 0 {
						continue
					}
					m := lookupModel(callee)
					if m == nil || len(m.mods) == 0 {
						continue
					}
					// receiver loaded directly from a fact global?
					if ld, ok := com.Args[0].(*ssa.UnOp); ok && ld.Op == token.MUL {
						if g, ok := ld.X.(*ssa.Global); ok {
							if _, isFact := facts[g]; isFact {
								viol[g] = append(viol[g], "mutated by "+callee.Name()+" in "+fn.String()+" at "+e.posString(in.Pos()))
							}
						}
					}
				}
			}
		}
	}
	var names []string
	byName := map[string]*ssa.Global{}
	for g, n := range facts {
		names = append(names, n)
		byName[n] = g
	}
	sort.Strings(names)
	var out []*StructObl
	for _, n := range names {
		g := byName[n]
		o := &StructObl{Name: "globals-immutable/" + n, Group: "globals-immutable/" + n, Clause: "package-level variable " + n + " is assigned only by its package initialiser and never mutated in place", OK: len(viol[g]) == 0}
		if !o.OK {
			sort.Strings(viol[g])
			o.Detail = strings.Join(viol[g], "; ")
		} else {
			o.Detail = "no store and no mutating big.Int/uint256 method call on it outside the initialiser (whole-program SSA scan)"
		}
		out = append(out, o)
	}
	return out
}

// ---------------------------------------------------------------------------
// field coverage: every field of struct T (except the declared exclusions) flows into
// the result of an encoder function (intra-procedural taint over the SSA, with getter
// summaries computed the same way).

func init() {
	registerStruct([]string{"ALL"}, func(e *Engine) []*StructObl { return nil })
}

type fieldSet map[string]bool

func (a fieldSet) union(b fieldSet) bool {
	ch := false
	for k := range b {
		if !a[k] {
			a[k] = true
			ch = true
		}
	}
	return ch
}

func isTypeOrPtr(t types.Type, T types.Type) bool {
	if types.Identical(t, T) {
		return true
	}
	if p, ok := t.Underlying().(*types.Pointer); ok {
		return types.Identical(p.Elem(), T)
	}
	return false
}

// fieldFlow: fields of T whose values may flow into the results of fn.
func (e *Engine) fieldFlow(fn *ssa.Function, T types.Type, depth int, stack map[*ssa.Function]bool) fieldSet {
	key := fn.String() + "|" + types.TypeString(T, nil)
	if r, ok := e.flowMemo[key]; ok {
		return r
	}
	out := fieldSet{}
	if depth > 5 || stack[fn] || len(fn.Blocks) == 0 {
		return out
	}
	stack[fn] = true
	defer delete(stack, fn)
	st, ok := T.Underlying().(*types.Struct)
	if !ok {
		return out
	}
	taint := map[ssa.Value]fieldSet{}
	get := func(v ssa.Value) fieldSet { return taint[v] }
	add := func(v ssa.Value, fs fieldSet) bool {
		if len(fs) == 0 || v == nil {
			return false
		}
		t := taint[v]
		if t == nil {
			t = fieldSet{}
			taint[v] = t
		}
		return t.union(fs)
	}
	rootObj := func(v ssa.Value) ssa.Value {
		for i := 0; i < 20; i++ {
			switch x := v.(type) {
			case *ssa.FieldAddr:
				v = x.X
			case *ssa.IndexAddr:
				v = x.X
			case *ssa.ChangeType:
				v = x.X
			case *ssa.Slice:
				v = x.X
			default:
				return v
			}
		}
		return v
	}
	changed := true
	for iter := 0; changed && iter < 50; iter++ {
		changed = false
		for _, b := range fn.Blocks {
			for _, in := range b.Instrs {
				switch x := in.(type) {
				case *ssa.FieldAddr:
					if isTypeOrPtr(x.X.Type(), T) {
						if add(x, fieldSet{st.Field(x.Field).Name(): true}) {
							changed = true
						}
					}
					if add(x, get(x.X)) {
						changed = true
					}
				case *ssa.Field:
					if types.Identical(x.X.Type(), T) {
						if add(x, fieldSet{st.Field(x.Field).Name(): true}) {
							changed = true
						}
					}
					if add(x, get(x.X)) {
						changed = true
					}
				case *ssa.Store:
					if fs := get(x.Val); len(fs) > 0 {
						if add(rootObj(x.Addr), fs) {
							changed = true
						}
						if add(x.Addr, fs) {
							changed = true
						}
					}
				case *ssa.MapUpdate:
					fs := fieldSet{}
					fs.union(get(x.Key))
					fs.union(get(x.Value))
					if add(x.Map, fs) {
						changed = true
					}
				case ssa.CallInstruction:
					com := x.Common()
					fs := fieldSet{}
					for _, a := range com.Args {
						fs.union(get(a))
					}
					if com.IsInvoke() {
						fs.union(get(com.Value))
					}
					// getter summaries: callee receives the T object itself
					if callee, ok := com.Value.(*ssa.Function); ok {
						for _, a := range com.Args {
							if isTypeOrPtr(a.Type(), T) {
								fs.union(e.fieldFlow(callee, T, depth+1, stack))
							}
						}
					}
					if v, ok := x.(ssa.Value); ok {
						if add(v, fs) {
							changed = true
						}
					}
					// destination arguments (copy/append/Write-like): pointer and slice arguments receive the taint
					if len(fs) > 0 {
						for i, a := range com.Args {
							if i == 0 || true {
								switch a.Type().Underlying().(type) {
								case *types.Pointer, *types.Slice, *types.Map:
									if !isTypeOrPtr(a.Type(), T) {
										if add(rootObj(a), fs) {
											changed = true
										}
									}
								}
							}
						}
					}
				case ssa.Value:
					fs := fieldSet{}
					var ops []*ssa.Value
					for _, op := range in.Operands(ops) {
						if *op != nil {
							fs.union(get(*op))
						}
					}
					if add(x, fs) {
						changed = true
					}
				}
			}
		}
	}
	for _, b := range fn.Blocks {
		for _, in := range b.Instrs {
			if r, ok := in.(*ssa.Return); ok {
				for _, v := range r.Results {
					out.union(get(v))
					out.union(get(rootObj(v)))
				}
			}
		}
	}
	e.flowMemo[key] = out
	return out
}

func (e *Engine) coverChecks(prop string) []*StructObl {
	var out []*StructObl
	for _, sf := range e.specFiles {
		for _, cv := range sf.Covers {
			if !hasProp(cv.Props, prop) {
				continue
			}
			grp := fmt.Sprintf("covers/%s/%s", cv.Func, cv.Type)
			fn, err := e.resolveFunc(sf.Pkg, cv.Func)
			sp := e.spkgs[sf.Pkg]
			var T types.Type
			if sp != nil {
				if tn, ok := sp.Pkg.Scope().Lookup(cv.Type).(*types.TypeName); ok {
					T = tn.Type()
				}
			}
			if err != nil || T == nil {
				out = append(out, &StructObl{Name: grp, Group: grp, Clause: "covers " + cv.Func, OK: false, Detail: fmt.Sprintf("cannot resolve function or type: %v", err)})
				continue
			}
			st, ok := T.Underlying().(*types.Struct)
			if !ok {
				continue
			}
			flows := e.fieldFlow(fn, T, 0, map[*ssa.Function]bool{})
			exc := map[string]bool{}
			for _, x := range cv.Except {
				exc[x] = true
			}
			for i := 0; i < st.NumFields(); i++ {
				f := st.Field(i).Name()
				if exc[f] {
					continue
				}
				o := &StructObl{Name: grp + "/" + f, Group: grp, Clause: fmt.Sprintf("field %s.%s flows into the result of %s", cv.Type, f, cv.Func), OK: flows[f]}
				if o.OK {
					o.Detail = "data-flow path from the field to the returned value found in the SSA"
				} else {
					o.Detail = fmt.Sprintf("no data flow from %s.%s into the result of %s (field dropped from the encoding?)", cv.Type, f, cv.Func)
				}
				out = append(out, o)
			}
			// exclusions must name real fields
			for x := range exc {
				found := false
				for i := 0; i < st.NumFields(); i++ {
					if st.Field(i).Name() == x {
						found = true
					}
				}
				if !found {
					out = append(out, &StructObl{Name: grp + "/except-" + x, Group: grp, Clause: "declared exclusion names a field", OK: false, Detail: "no such field " + x})
				}
			}
		}
	}
	return out
}

func (e *Engine) factGlobalKeys() map[string]bool {
	if e.factKeys != nil {
		return e.factKeys
	}
	e.factKeys = map[string]bool{}
	for g := range e.factGlobals() {
		e.factKeys[globalKey(g)] = true
	}
	return e.factKeys
}

// ---------------------------------------------------------------------------
// journal pairs (C12, J1/J2 as frame obligations): a mutator appends an entry of the given
// type before its first write to journalled state, and every journalled field the mutator
// writes is written back by that entry's revert.

func isJournalledMem(n string) bool {
	if strings.HasPrefix(n, "H|core/state.stateObject|") {
		// caches and bookkeeping that are not part of an account's value
		for _, skip := range []string{".trie", ".dbErr", ".db", ".address", ".addrHash"} {
			if strings.HasPrefix(n, "H|core/state.stateObject|"+skip) {
				return false
			}
		}
		return true
	}
	for _, f := range []string{".refund", ".logSize", ".size"} {
		if n == "H|core/state.StateDB|"+f {
			return true
		}
	}
	return false
}

// trackedWrites: journalled memory arrays stored to by fn, following static calls (depth<=3)
// except into the journal itself and the object lookup/creation helpers.
func (e *Engine) trackedWrites(fn *ssa.Function, depth int, seen map[*ssa.Function]bool, out map[string]string) {
	if fn == nil || seen[fn] || depth > 3 || len(fn.Blocks) == 0 {
		return
	}
	seen[fn] = true
	for _, b := range fn.Blocks {
		for _, in := range b.Instrs {
			switch x := in.(type) {
			case *ssa.Store:
				if rootOf(x.Addr, 0) == -2 {
					continue
				}
				names, _ := staticMems(x.Addr)
				for _, n := range names {
					if isJournalledMem(n) {
						// group leaves of one field together: strip slice/interface leaf suffixes
						f := n
						for _, suf := range []string{".b", ".o", ".l", ".c", ".t", ".v"} {
							f = strings.TrimSuffix(f, suf)
						}
						if _, ok := out[f]; !ok {
							out[f] = fn.Name() + " at " + e.posString(x.Pos())
						}
					}
				}
			case ssa.CallInstruction:
				if callee, ok := x.Common().Value.(*ssa.Function); ok {
					switch callee.Name() {
					case "append", "getStateObject", "getDeletedStateObject", "GetOrNewStateObject", "createObject", "setError", "dirty":
						continue
					}
					if callee.Pkg == fn.Pkg {
						e.trackedWrites(callee, depth+1, seen, out)
					}
				}
			}
		}
	}
}

func (e *Engine) journalChecks(prop string) []*StructObl {
	var out []*StructObl
	for _, sf := range e.specFiles {
		sp := e.spkgs[sf.Pkg]
		for _, jp := range sf.Journal {
			if !hasProp(jp.Props, prop) {
				continue
			}
			grp := fmt.Sprintf("journal/%s/%s", jp.Mutator, jp.Entry)
			mut, err1 := e.resolveFunc(sf.Pkg, jp.Mutator)
			rev, err2 := e.resolveFunc(sf.Pkg, "("+jp.Entry+").revert")
			var entryT types.Type
			if sp != nil {
				if tn, ok := sp.Pkg.Scope().Lookup(jp.Entry).(*types.TypeName); ok {
					entryT = tn.Type()
				}
			}
			if err1 != nil || err2 != nil || entryT == nil {
				out = append(out, &StructObl{Name: grp, Group: grp, Clause: "journal pair resolves", OK: false, Detail: fmt.Sprintf("%v %v", err1, err2)})
				continue
			}
			// (a) an entry of the type is appended, and that append dominates every tracked store in the mutator body
			var appendSite ssa.Instruction
			for _, b := range mut.Blocks {
				for _, in := range b.Instrs {
					ci, ok := in.(ssa.CallInstruction)
					if !ok {
						continue
					}
					callee, ok := ci.Common().Value.(*ssa.Function)
					if !ok || callee.Name() != "append" || len(ci.Common().Args) < 2 {
						continue
					}
					if mi, ok := ci.Common().Args[1].(*ssa.MakeInterface); ok && types.Identical(mi.X.Type(), entryT) {
						appendSite = in
					}
				}
			}
			oa := &StructObl{Name: grp + "/appends", Group: grp, Clause: fmt.Sprintf("%s appends a %s to the journal before writing journalled state", jp.Mutator, jp.Entry), OK: appendSite != nil}
			if appendSite == nil {
				oa.Detail = "no journal.append(" + jp.Entry + "{...}) in the mutator"
			} else {
				oa.Detail = "append at " + e.posString(appendSite.Pos())
				ai := instrIndex(appendSite)
				for _, b := range mut.Blocks {
					for i, in := range b.Instrs {
						var touches bool
						switch x := in.(type) {
						case *ssa.Store:
							if rootOf(x.Addr, 0) != -2 {
								names, _ := staticMems(x.Addr)
								for _, n := range names {
									if isJournalledMem(n) {
										touches = true
									}
								}
							}
						case ssa.CallInstruction:
							if callee, ok := x.Common().Value.(*ssa.Function); ok && callee.Pkg == mut.Pkg && callee.Name() != "append" {
								w := map[string]string{}
								e.trackedWrites(callee, 1, map[*ssa.Function]bool{}, w)
								// only setters count: getters such as Code()/GetState() fill caches, which is not a state mutation
								n := callee.Name()
								touches = len(w) > 0 && (strings.HasPrefix(n, "set") || strings.HasPrefix(n, "Set") || strings.HasPrefix(n, "mark"))
							}
						}
						if !touches {
							continue
						}
						dominated := (b == appendSite.Block() && i > ai) || (b != appendSite.Block() && appendSite.Block().Dominates(b))
						if !dominated {
							oa.OK = false
							oa.Detail = fmt.Sprintf("write to journalled state at %s is not preceded by the journal append", e.posString(in.Pos()))
						}
					}
				}
			}
			out = append(out, oa)
			// (b) frame inclusion
			mw := map[string]string{}
			e.trackedWrites(mut, 0, map[*ssa.Function]bool{}, mw)
			rw := map[string]string{}
			e.trackedWrites(rev, 0, map[*ssa.Function]bool{}, rw)
			var fields []string
			for f := range mw {
				fields = append(fields, f)
			}
			sort.Strings(fields)
			for _, f := range fields {
				short := strings.TrimPrefix(strings.TrimPrefix(f, "H|core/state."), "stateObject|")
				o := &StructObl{Name: grp + "/restores[" + short + "]", Group: grp, Clause: fmt.Sprintf("field %s written by %s is written back by %s.revert", short, jp.Mutator, jp.Entry)}
				if _, ok := rw[f]; ok {
					o.OK = true
					o.Detail = "written in " + mw[f] + "; restored in " + rw[f]
				} else {
					o.Detail = "written in " + mw[f] + " but never written by " + jp.Entry + ".revert"
				}
				out = append(out, o)
			}
		}
	}
	return out
}

// ---------------------------------------------------------------------------
// fieldpair: a table invariant of the shape "an entry that sets field A also sets field B",
// decided per object construction site (composite literal or new + field stores) in the SSA of
// the package. One obligation per construction site that sets A, named by the source line of
// the store to A.

func (e *Engine) fieldPairChecks(prop string) []*StructObl {
	var out []*StructObl
	for _, sf := range e.specFiles {
		sp := e.spkgs[sf.Pkg]
		for _, fp := range sf.FieldPairs {
			if !hasProp(fp.Props, prop) {
				continue
			}
			grp := fmt.Sprintf("fieldpair/%s/%s=>%s", fp.Type, fp.If, fp.Then)
			var T types.Type
			if sp != nil {
				if tn, ok := sp.Pkg.Scope().Lookup(fp.Type).(*types.TypeName); ok {
					T = tn.Type()
				}
			}
			st, _ := func() (*types.Struct, bool) {
				if T == nil {
					return nil, false
				}
				s, ok := T.Underlying().(*types.Struct)
				return s, ok
			}()
			if st == nil {
				out = append(out, &StructObl{Name: grp, Group: grp, Clause: "struct type resolves", OK: false, Detail: "type " + fp.Type + " not found"})
				continue
			}
			idx := func(name string) int {
				for i := 0; i < st.NumFields(); i++ {
					if st.Field(i).Name() == name {
						return i
					}
				}
				return -1
			}
			iIf, iThen := idx(fp.If), idx(fp.Then)
			if iIf < 0 || iThen < 0 {
				out = append(out, &StructObl{Name: grp, Group: grp, Clause: "fields resolve", OK: false, Detail: "field not found"})
				continue
			}
			sites := 0
			var fns []*ssa.Function
			for fn := range e.allFuncs {
				if fn.Pkg == sp {
					fns = append(fns, fn)
				}
			}
			sort.Slice(fns, func(i, j int) bool { return fns[i].String() < fns[j].String() })
			for _, fn := range fns {
				for _, b := range fn.Blocks {
					for _, in := range b.Instrs {
						al, ok := in.(*ssa.Alloc)
						if !ok || !types.Identical(deref(al.Type()), T) {
							continue
						}
						var ifPos token.Pos
						setIf, setThen := false, false
						if refs := al.Referrers(); refs != nil {
							for _, r := range *refs {
								fa, ok := r.(*ssa.FieldAddr)
								if !ok {
									continue
								}
								stored := false
								if frefs := fa.Referrers(); frefs != nil {
									for _, fr := range *frefs {
										if stv, ok := fr.(*ssa.Store); ok && stv.Addr == fa {
											if k, isConst := stv.Val.(*ssa.Const); isConst && k.Value == nil {
												continue // explicit nil
											}
											stored = true
											if fa.Field == iIf {
												ifPos = stv.Pos()
											}
										}
									}
								}
								if stored && fa.Field == iIf {
									setIf = true
								}
								if stored && fa.Field == iThen {
									setThen = true
								}
							}
						}
						if !setIf {
							continue
						}
						sites++
						where := e.lineText(ifPos)
						if where == "" || where == "?" {
							where = e.posString(al.Pos())
						}
						ctxLine := e.enclosingKey(ifPos)
						name := fmt.Sprintf("%s/%s[%s %s]", grp, fn.Name(), ctxLine, strings.TrimSpace(where))
						out = append(out, &StructObl{Name: name, Group: grp,
							Clause: fmt.Sprintf("an %s that sets %s also sets %s", fp.Type, fp.If, fp.Then), OK: setThen,
							Detail: e.posString(ifPos)})
					}
				}
			}
			if sites == 0 {
				out = append(out, &StructObl{Name: grp + "/sites", Group: grp, Clause: "at least one construction site sets " + fp.If, OK: false, Detail: "no site found (vacuous)"})
			}
		}
	}
	return out
}

// enclosingKey: for a position inside a keyed element of a composite literal ("ETX: {...}"),
// the text of the nearest enclosing key; "" otherwise.
func (e *Engine) enclosingKey(pos token.Pos) string {
	if !pos.IsValid() {
		return ""
	}
	file := e.fileOf(pos)
	if file == nil {
		return ""
	}
	best := ""
	ast.Inspect(file, func(n ast.Node) bool {
		if n == nil {
			return false
		}
		if n.Pos() > pos || n.End() < pos {
			return false
		}
		if kv, ok := n.(*ast.KeyValueExpr); ok {
			if _, isLit := kv.Value.(*ast.CompositeLit); isLit {
				best = exprString(kv.Key) + ":"
			}
		}
		return true
	})
	return best
}
