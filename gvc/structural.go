package main

import (
	"go/ast"
	"go/token"
	"sort"
	"strings"

	"golang.org/x/tools/go/ssa"
)

// Structural obligations (back end "ssa-frame"): properties of the shape of the
// code decided by scanning the SSA of the current tree (encapsulation, field
// coverage, table invariants, dominance). Each is a named obligation.

type StructObl struct {
	Name      string
	Group     string
	Clause    string
	OK        bool
	Detail    string
	Confirmed bool
}

type structCheck struct {
	props []string
	run   func(e *Engine) []*StructObl
}

var structChecks []structCheck

func registerStruct(props []string, run func(e *Engine) []*StructObl) {
	structChecks = append(structChecks, structCheck{props: props, run: run})
}

func (e *Engine) structuralChecks(prop string) []*StructObl {
	var out []*StructObl
	for _, sc := range structChecks {
		if hasProp(sc.props, prop) {
			out = append(out, sc.run(e)...)
		}
	}
	return out
}

// ---------------------------------------------------------------------------
// globals-immutable: package-level variables that global facts speak about are
// assigned only by their package initialiser, and the *big.Int objects they
// point to are never the receiver of a mutating method.

func init() {
	registerStruct([]string{"ALL"}, func(e *Engine) []*StructObl { return e.globalsImmutable() })
}

func (e *Engine) factGlobals() map[*ssa.Global]string {
	out := map[*ssa.Global]string{}
	for _, sf := range e.specFiles {
		sp := e.spkgs[sf.Pkg]
		if sp == nil {
			continue
		}
		for _, g := range sf.Globals {
			ast.Inspect(g.Expr, func(n ast.Node) bool {
				if id, ok := n.(*ast.Ident); ok {
					if gv, ok := sp.Members[id.Name].(*ssa.Global); ok {
						out[gv] = strings.TrimPrefix(sf.Pkg, repoMod+"/") + "." + id.Name
					}
				}
				return true
			})
		}
	}
	return out
}

func (e *Engine) globalsImmutable() []*StructObl {
	facts := e.factGlobals()
	viol := map[*ssa.Global][]string{}
	for fn := range e.allFuncs {
		if fn.Synthetic == "package initializer" {
			continue
		}
		for _, b := range fn.Blocks {
			for _, in := range b.Instrs {
				switch x := in.(type) {
				case *ssa.Store:
					if g := globalRoot(x.Addr, 0); g != nil {
						if _, ok := facts[g]; ok {
							viol[g] = append(viol[g], "assigned in "+fn.String()+" at "+e.posString(x.Pos()))
						}
					}
				case ssa.CallInstruction:
					com := x.Common()
					callee, ok := com.Value.(*ssa.Function)
					if !ok || len(com.Args) == 0 {
						continue
					}
					m := lookupModel(callee)
					if m == nil || len(m.mods) == 0 {
						continue
					}
					// receiver loaded directly from a fact global?
					if ld, ok := com.Args[0].(*ssa.UnOp); ok && ld.Op == token.MUL {
						if g, ok := ld.X.(*ssa.Global); ok {
							if _, isFact := facts[g]; isFact {
								viol[g] = append(viol[g], "mutated by "+callee.Name()+" in "+fn.String()+" at "+e.posString(in.Pos()))
							}
						}
					}
				}
			}
		}
	}
	var names []string
	byName := map[string]*ssa.Global{}
	for g, n := range facts {
		names = append(names, n)
		byName[n] = g
	}
	sort.Strings(names)
	var out []*StructObl
	for _, n := range names {
		g := byName[n]
		o := &StructObl{Name: "globals-immutable/" + n, Group: "globals-immutable/" + n, Clause: "package-level variable " + n + " is assigned only by its package initialiser and never mutated in place", OK: len(viol[g]) == 0}
		if !o.OK {
			sort.Strings(viol[g])
			o.Detail = strings.Join(viol[g], "; ")
		} else {
			o.Detail = "no store and no mutating big.Int/uint256 method call on it outside the initialiser (whole-program SSA scan)"
		}
		out = append(out, o)
	}
	return out
}
