package main

// Contract files: //@ comment lines in <pkg>/zz_verif_contracts.go (build tag verif).

import (
	"fmt"
	"go/ast"
	"go/parser"
	"os"
	"regexp"
	"strconv"
	"strings"
)

type Clause struct {
	Text  string
	Expr  ast.Expr
	N     int      // ordinal within its kind (1-based)
	Props []string // property tags
	Line  int
	File  string
	Known bool
	// Assumed: a postcondition that call sites may rely on but that is not proved for the body
	// (clause-level trust inside an otherwise verified contract); listed in the evidence
	Assumed bool
}

type LetDef struct {
	Name string
	Expr ast.Expr
	Text string
}

type Contract struct {
	Pkg       string // package path
	FuncName  string // as written
	Props     []string
	Lets      []LetDef
	Requires  []Clause
	Ensures   []Clause
	LoopInv   map[int][]Clause
	Asserts   []Clause
	Safety    bool
	Trusted   bool // assumed, not verified
	Modifies  []string
	HasMod    bool
	NoInline  bool
	Pure      bool
	File      string
	Line      int
	IsIface   bool // interface method contract
	IsFuncT   bool // function-type contract
	ParamNames []string // for interface / functype contracts: names given in the header
	Ghost     []GhostUpd
	CallReq   map[string][]Clause // call-site specific preconditions, by callee name
	Timeout   int
	Nonlinear bool
	Quant     bool
}

type GhostUpd struct {
	Name string
	Expr ast.Expr
	Text string
}

type SpecFun struct {
	Name string
	Args []string
	Ret  string
}

// FieldPair: every object of struct type Type that gets field If assigned also gets field Then assigned.
type FieldPair struct {
	Type, If, Then string
	Props          []string
	Line           int
}

type SpecDefine struct {
	Name   string
	Params []string
	Body   ast.Expr
	Text   string
}

type Lemma struct {
	Name  string
	Vars  []string // "x Int"
	Hyps  []Clause
	Goal  Clause
	Props []string
	Pkg   string
	Line  int
	File  string
}

type GlobalFact struct {
	Clause
	Pkg string
}

type CoverSpec struct {
	Func   string
	Type   string
	Except []string
	Props  []string
	Pkg    string
	File   string
	Line   int
}

type JournalPair struct {
	Mutator string
	Entry   string
	Props   []string
	Line    int
}

type SpecFile struct {
	Journal   []*JournalPair
	FieldPairs []*FieldPair
	Immutable []string
	ImmProps  []string
	Covers    []*CoverSpec
	Pkg       string
	Contracts []*Contract
	Funs      []SpecFun
	Defines   []*SpecDefine
	Lemmas    []*Lemma
	Globals   []GlobalFact
	Ghosts    []SpecFun // ghost memory arrays: name + sort
	Axioms    []Clause
}

var propTagRe = regexp.MustCompile(`^\[([A-Za-z0-9_,\s]+)\]\s*`)

func parseProps(s string) ([]string, string) {
	m := propTagRe.FindStringSubmatch(s)
	if m == nil {
		return nil, s
	}
	var ps []string
	for _, p := range strings.Split(m[1], ",") {
		ps = append(ps, strings.TrimSpace(p))
	}
	return ps, s[len(m[0]):]
}

// desugar rewrites ==> and <==> into Go operators.
func desugar(s string) (string, error) {
	// process parenthesised groups recursively
	var out strings.Builder
	i := 0
	for i < len(s) {
		ch := s[i]
		if ch == '"' {
			j := i + 1
			for j < len(s) && s[j] != '"' {
				if s[j] == '\\' {
					j++
				}
				j++
			}
			if j >= len(s) {
				return "", fmt.Errorf("unterminated string")
			}
			out.WriteString(s[i : j+1])
			i = j + 1
			continue
		}
		if ch == '(' || ch == '[' {
			close := byte(')')
			if ch == '[' {
				close = ']'
			}
			d := 0
			j := i
			for ; j < len(s); j++ {
				if s[j] == ch {
					d++
				} else if s[j] == close {
					d--
					if d == 0 {
						break
					}
				}
			}
			if j >= len(s) {
				return "", fmt.Errorf("unbalanced parentheses in %q", s)
			}
			inner := s[i+1 : j]
			// split on top-level commas, desugar each piece
			parts := splitTop(inner, ',')
			for k := range parts {
				p, err := desugar(parts[k])
				if err != nil {
					return "", err
				}
				parts[k] = p
			}
			out.WriteByte(ch)
			out.WriteString(strings.Join(parts, ","))
			out.WriteByte(close)
			i = j + 1
			continue
		}
		out.WriteByte(ch)
		i++
	}
	t := out.String()
	// now split at top level on <==> then ==>
	if idx := indexTop(t, "<==>"); idx >= 0 {
		a, err := desugar(t[:idx])
		if err != nil {
			return "", err
		}
		b, err := desugar(t[idx+4:])
		if err != nil {
			return "", err
		}
		return "((" + a + ") == (" + b + "))", nil
	}
	if idx := indexTop(t, "==>"); idx >= 0 {
		a := t[:idx]
		b, err := desugar(t[idx+3:])
		if err != nil {
			return "", err
		}
		return "(!(" + a + ") || (" + b + "))", nil
	}
	return t, nil
}

func indexTop(s, op string) int {
	d := 0
	inq := false
	for i := 0; i+len(op) <= len(s); i++ {
		ch := s[i]
		if inq {
			if ch == '"' {
				inq = false
			}
			continue
		}
		switch ch {
		case '"':
			inq = true
		case '(', '[', '{':
			d++
		case ')', ']', '}':
			d--
		}
		if d == 0 && strings.HasPrefix(s[i:], op) {
			// "==>" must not be part of "<==>"
			if op == "==>" && i > 0 && s[i-1] == '<' {
				continue
			}
			return i
		}
	}
	return -1
}

func splitTop(s string, sep byte) []string {
	var out []string
	d := 0
	start := 0
	inq := false
	for i := 0; i < len(s); i++ {
		ch := s[i]
		if inq {
			if ch == '"' {
				inq = false
			}
			continue
		}
		switch ch {
		case '"':
			inq = true
		case '(', '[', '{':
			d++
		case ')', ']', '}':
			d--
		}
		if ch == sep && d == 0 {
			out = append(out, s[start:i])
			start = i + 1
		}
	}
	out = append(out, s[start:])
	return out
}

var pow2Re = regexp.MustCompile(`\b2\^(\d+)\b`)

func parseSpecExpr(s string) (ast.Expr, error) {
	// 2^k literals
	s = pow2Re.ReplaceAllStringFunc(s, func(m string) string {
		k, _ := strconv.Atoi(m[2:])
		return pow2(uint(k)).String()
	})
	d, err := desugar(s)
	if err != nil {
		return nil, err
	}
	e, err := parser.ParseExpr(d)
	if err != nil {
		return nil, fmt.Errorf("%v in %q", err, d)
	}
	return e, nil
}

func parseSpecFile(path, pkg string) (*SpecFile, error) {
	data, err := os.ReadFile(path)
	if err != nil {
		return nil, err
	}
	sf := &SpecFile{Pkg: pkg}
	var cur *Contract
	var curLemma *Lemma
	var curCover *CoverSpec
	type pend struct {
		kind string
		arg  string
		text string
		line int
		props []string
	}
	var lines []pend
	for i, raw := range strings.Split(string(data), "\n") {
		t := strings.TrimSpace(raw)
		if !strings.HasPrefix(t, "//@") {
			continue
		}
		t = strings.TrimSpace(t[3:])
		if t == "" || strings.HasPrefix(t, "#") {
			continue
		}
		// strip trailing comment " // ..."
		if idx := strings.Index(t, " // "); idx >= 0 {
			t = strings.TrimSpace(t[:idx])
		}
		// continuation
		if len(lines) > 0 && (strings.HasPrefix(t, "&&") || strings.HasPrefix(t, "||") || strings.HasPrefix(t, "==>") || strings.HasPrefix(t, "<==>")) {
			lines[len(lines)-1].text += " " + t
			continue
		}
		sp := strings.IndexAny(t, " \t")
		kw := t
		rest := ""
		if sp >= 0 {
			kw = t[:sp]
			rest = strings.TrimSpace(t[sp+1:])
		}
		lines = append(lines, pend{kind: kw, text: rest, line: i + 1})
	}
	mkClause := func(p pend, n int) (Clause, error) {
		props, txt := parseProps(p.text)
		known := false
		e, err := parseSpecExpr(txt)
		if err != nil {
			return Clause{}, fmt.Errorf("%s:%d: %v", path, p.line, err)
		}
		return Clause{Text: txt, Expr: e, N: n, Props: props, Line: p.line, File: path, Known: known}, nil
	}
	for _, p := range lines {
		switch p.kind {
		case "func", "interface", "functype":
			cur = &Contract{Pkg: pkg, LoopInv: map[int][]Clause{}, File: path, Line: p.line}
			curLemma = nil
			curCover = nil
			name := p.text
			if p.kind == "interface" || p.kind == "functype" {
				// Name(params...)
				if i := strings.Index(name, "("); i >= 0 && strings.HasSuffix(name, ")") && !strings.HasPrefix(name, "(") {
					for _, pn := range strings.Split(name[i+1:len(name)-1], ",") {
						if pn = strings.TrimSpace(pn); pn != "" {
							cur.ParamNames = append(cur.ParamNames, pn)
						}
					}
					name = name[:i]
				}
				cur.IsIface = p.kind == "interface"
				cur.IsFuncT = p.kind == "functype"
			}
			cur.FuncName = strings.TrimSpace(name)
			sf.Contracts = append(sf.Contracts, cur)
		case "journal":
			// journal [props] <mutator> <entryType>
			props, rest := parseProps(p.text)
			fs := strings.Fields(rest)
			if len(fs) != 2 {
				return nil, fmt.Errorf("%s:%d: journal <mutator> <entryType>", path, p.line)
			}
			sf.Journal = append(sf.Journal, &JournalPair{Mutator: fs[0], Entry: fs[1], Props: props, Line: p.line})
		case "fieldpair":
			// fieldpair [props] <structType> <ifField> <thenField>
			props, rest := parseProps(p.text)
			fs := strings.Fields(rest)
			if len(fs) != 3 {
				return nil, fmt.Errorf("%s:%d: fieldpair <type> <ifField> <thenField>", path, p.line)
			}
			sf.FieldPairs = append(sf.FieldPairs, &FieldPair{Type: fs[0], If: fs[1], Then: fs[2], Props: props, Line: p.line})
		case "immutable":
			// immutable [props] v1 v2 ... : package-level variables assigned only by the initialiser
			props, rest := parseProps(p.text)
			sf.ImmProps = append(sf.ImmProps, props...)
			sf.Immutable = append(sf.Immutable, strings.Fields(rest)...)
		case "covers":
			// covers <func> <Type> [except f1 f2 ...]
			fs := strings.Fields(p.text)
			if len(fs) < 2 {
				return nil, fmt.Errorf("%s:%d: bad covers", path, p.line)
			}
			cv := &CoverSpec{Func: fs[0], Type: fs[1], Pkg: pkg, File: path, Line: p.line}
			if len(fs) > 2 {
				if fs[2] != "except" {
					return nil, fmt.Errorf("%s:%d: covers: expected 'except'", path, p.line)
				}
				cv.Except = fs[3:]
			}
			sf.Covers = append(sf.Covers, cv)
			curCover = cv
			cur = nil
			curLemma = nil
		case "lemma":
			curLemma = &Lemma{Name: strings.TrimSuffix(strings.TrimSpace(p.text), ":"), Pkg: pkg, Line: p.line, File: path}
			cur = nil
			curCover = nil
			sf.Lemmas = append(sf.Lemmas, curLemma)
		case "var":
			if curLemma != nil {
				curLemma.Vars = append(curLemma.Vars, p.text)
			}
		case "property":
			ps := strings.FieldsFunc(p.text, func(r rune) bool { return r == ',' || r == ' ' })
			if cur != nil {
				cur.Props = ps
			} else if curLemma != nil {
				curLemma.Props = ps
			} else if curCover != nil {
				curCover.Props = ps
			}
		case "requires", "ensures", "assert", "assumes", "envassume":
			if curLemma != nil {
				cl, err := mkClause(p, len(curLemma.Hyps)+1)
				if err != nil {
					return nil, err
				}
				if p.kind == "requires" {
					curLemma.Hyps = append(curLemma.Hyps, cl)
				} else {
					curLemma.Goal = cl
				}
				continue
			}
			if cur == nil {
				return nil, fmt.Errorf("%s:%d: clause outside func", path, p.line)
			}
			switch p.kind {
			case "requires", "envassume":
				cl, err := mkClause(p, len(cur.Requires)+1)
				if err != nil {
					return nil, err
				}
				// envassume: an assumption about the environment (e.g. what a library hands to this
				// function) that holds at entry but is not an obligation of callers; listed in the evidence
				cl.Assumed = p.kind == "envassume"
				cur.Requires = append(cur.Requires, cl)
			case "ensures", "assumes":
				cl, err := mkClause(p, len(cur.Ensures)+1)
				if err != nil {
					return nil, err
				}
				cl.Assumed = p.kind == "assumes"
				cur.Ensures = append(cur.Ensures, cl)
			}
		case "let":
			if cur == nil {
				return nil, fmt.Errorf("%s:%d: let outside func", path, p.line)
			}
			eqi := strings.Index(p.text, "=")
			if eqi < 0 {
				return nil, fmt.Errorf("%s:%d: bad let", path, p.line)
			}
			e, err := parseSpecExpr(strings.TrimSpace(p.text[eqi+1:]))
			if err != nil {
				return nil, fmt.Errorf("%s:%d: %v", path, p.line, err)
			}
			cur.Lets = append(cur.Lets, LetDef{Name: strings.TrimSpace(p.text[:eqi]), Expr: e, Text: p.text})
		case "loop":
			// loop <k> invariant <expr>
			fs := strings.Fields(p.text)
			if len(fs) < 3 || cur == nil {
				return nil, fmt.Errorf("%s:%d: bad loop clause", path, p.line)
			}
			k, err := strconv.Atoi(fs[0])
			if err != nil {
				return nil, fmt.Errorf("%s:%d: bad loop ordinal", path, p.line)
			}
			if fs[1] == "decreases" {
				continue // recorded only; termination is not verified
			}
			txt := strings.TrimSpace(p.text[strings.Index(p.text, fs[1])+len(fs[1]):])
			pp := p
			pp.text = txt
			cl, err := mkClause(pp, len(cur.LoopInv[k])+1)
			if err != nil {
				return nil, err
			}
			cur.LoopInv[k] = append(cur.LoopInv[k], cl)
		case "callsite":
			// callsite <callee> requires [props] <expr>
			fs := strings.Fields(p.text)
			if cur == nil || len(fs) < 3 || fs[1] != "requires" {
				return nil, fmt.Errorf("%s:%d: callsite <callee> requires <expr>", path, p.line)
			}
			pp := p
			pp.text = strings.TrimSpace(p.text[strings.Index(p.text, "requires")+len("requires"):])
			if cur.CallReq == nil {
				cur.CallReq = map[string][]Clause{}
			}
			cl, err := mkClause(pp, len(cur.CallReq[fs[0]])+1)
			if err != nil {
				return nil, err
			}
			cur.CallReq[fs[0]] = append(cur.CallReq[fs[0]], cl)
		case "safety":
			if cur != nil {
				cur.Safety = p.text == "on"
			}
		case "trusted", "assume":
			if cur != nil {
				cur.Trusted = true
			}
		case "pure":
			if cur != nil {
				cur.Pure = true
				cur.HasMod = true
			}
		case "noinline":
			if cur != nil {
				cur.NoInline = true
			}
		case "arith":
			if cur != nil {
				cur.Nonlinear = p.text == "nonlinear"
			}
		case "quantifiers":
			if cur != nil {
				cur.Quant = p.text == "on"
			}
		case "timeout":
			if cur != nil {
				cur.Timeout, _ = strconv.Atoi(p.text)
			}
		case "modifies":
			if cur != nil {
				cur.HasMod = true
				if p.text != "nothing" {
					for _, n := range strings.Fields(strings.ReplaceAll(p.text, ",", " ")) {
						cur.Modifies = append(cur.Modifies, n)
					}
				}
			}
		case "ghostset":
			// ghostset name = expr   (post-state update of a ghost array, evaluated in the pre-state)
			eqi := strings.Index(p.text, "=")
			if cur == nil || eqi < 0 {
				return nil, fmt.Errorf("%s:%d: bad ghostset", path, p.line)
			}
			e, err := parseSpecExpr(strings.TrimSpace(p.text[eqi+1:]))
			if err != nil {
				return nil, fmt.Errorf("%s:%d: %v", path, p.line, err)
			}
			cur.Ghost = append(cur.Ghost, GhostUpd{Name: strings.TrimSpace(p.text[:eqi]), Expr: e, Text: p.text})
		case "fun":
			// fun name(Int, Int) Int
			i := strings.Index(p.text, "(")
			j := -1
			if i >= 0 {
				d := 0
				for k := i; k < len(p.text); k++ {
					if p.text[k] == '(' {
						d++
					} else if p.text[k] == ')' {
						d--
						if d == 0 {
							j = k
							break
						}
					}
				}
			}
			if i < 0 || j < i {
				return nil, fmt.Errorf("%s:%d: bad fun", path, p.line)
			}
			var args []string
			for _, a := range splitTop(p.text[i+1:j], ',') {
				if a = strings.TrimSpace(a); a != "" {
					args = append(args, a)
				}
			}
			sf.Funs = append(sf.Funs, SpecFun{Name: strings.TrimSpace(p.text[:i]), Args: args, Ret: strings.TrimSpace(p.text[j+1:])})
		case "ghost":
			// ghost name <sort>
			fs := strings.SplitN(p.text, " ", 2)
			if len(fs) != 2 {
				return nil, fmt.Errorf("%s:%d: bad ghost", path, p.line)
			}
			sf.Ghosts = append(sf.Ghosts, SpecFun{Name: fs[0], Ret: strings.TrimSpace(fs[1])})
		case "define":
			// define name(a, b) = expr
			eqi := strings.Index(p.text, "=")
			i := strings.Index(p.text, "(")
			j := strings.Index(p.text, ")")
			if eqi < 0 || i < 0 || j < i || j > eqi {
				return nil, fmt.Errorf("%s:%d: bad define", path, p.line)
			}
			var ps []string
			for _, a := range strings.Split(p.text[i+1:j], ",") {
				if a = strings.TrimSpace(a); a != "" {
					ps = append(ps, a)
				}
			}
			e, err := parseSpecExpr(strings.TrimSpace(p.text[eqi+1:]))
			if err != nil {
				return nil, fmt.Errorf("%s:%d: %v", path, p.line, err)
			}
			sf.Defines = append(sf.Defines, &SpecDefine{Name: strings.TrimSpace(p.text[:i]), Params: ps, Body: e, Text: p.text})
		case "global", "axiom":
			pp := p
			cl, err := mkClause(pp, len(sf.Globals)+1)
			if err != nil {
				return nil, err
			}
			if p.kind == "global" {
				sf.Globals = append(sf.Globals, GlobalFact{Clause: cl, Pkg: pkg})
			} else {
				sf.Axioms = append(sf.Axioms, cl)
			}
		default:
			return nil, fmt.Errorf("%s:%d: unknown contract keyword %q", path, p.line, p.kind)
		}
	}
	return sf, nil
}
