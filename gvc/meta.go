package main

// Per-property static texts for evidence files.

var notClaimedText = map[string][]string{}

var assumptionText = map[string][]string{}

func notClaimed(prop string) []string {
	if v, ok := notClaimedText[prop]; ok {
		return v
	}
	return []string{}
}

func assumptionsFor(prop string, notes map[string]int) []string {
	out := []string{
		"integers are modelled exactly (explicit wrap-around on every fixed-width operation); spec arithmetic is mathematical",
		"external functions without a model are assumed to write only memory reachable from their pointer/slice/map arguments",
		"goroutine interleavings, recover handlers, unsafe, cgo, reflection and floating-point values are not modelled",
	}
	out = append(out, assumptionText[prop]...)
	for _, k := range sortedKeys(notes) {
		out = append(out, "imprecision note: "+k)
	}
	return out
}
