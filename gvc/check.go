package main

import (
	"encoding/json"
	"flag"
	"fmt"
	"os"
	"path/filepath"
	"regexp"
	"sort"
	"strconv"
	"strings"
	"time"
)

type knownFinding struct {
	Prop string
	Name string // obligation name (exact) or prefix ending with '*'
	Desc string
}

func loadKnown(path string) (known []knownFinding, fixed []string) {
	data, err := os.ReadFile(path)
	if err != nil {
		return nil, nil
	}
	for _, ln := range strings.Split(string(data), "\n") {
		ln = strings.TrimSpace(ln)
		if strings.HasPrefix(ln, "fixed:") {
			fixed = append(fixed, ln)
			continue
		}
		if !strings.HasPrefix(ln, "known:") {
			continue
		}
		rest := strings.TrimSpace(ln[6:])
		if !strings.HasPrefix(rest, "property=") {
			continue
		}
		sp := strings.IndexByte(rest, ' ')
		if sp < 0 {
			continue
		}
		prop := rest[len("property="):sp]
		rest = strings.TrimSpace(rest[sp+1:])
		name, desc := rest, ""
		if i := strings.Index(rest, " :: "); i >= 0 {
			name, desc = strings.TrimSpace(rest[:i]), strings.TrimSpace(rest[i+4:])
		}
		known = append(known, knownFinding{Prop: prop, Name: name, Desc: desc})
	}
	return
}

func matchKnown(known []knownFinding, prop, name string) *knownFinding {
	for i := range known {
		k := &known[i]
		if k.Prop != prop {
			continue
		}
		if k.Name == name {
			return k
		}
	}
	return nil
}

type oblRecord struct {
	Name   string  `json:"name"`
	Kind   string  `json:"kind"`
	Result string  `json:"result"`
	Solver string  `json:"solver,omitempty"`
	TimeS  float64 `json:"time_s"`
	Size   int     `json:"smt_bytes,omitempty"`
	Clause string  `json:"clause,omitempty"`
}

type funcRecord struct {
	Func       string   `json:"func"`
	Blocks     int      `json:"ssa_blocks"`
	Instrs     int      `json:"ssa_instrs"`
	Loops      int      `json:"loops"`
	Exits      int      `json:"exits"`
	Obls       int      `json:"obligations"`
	HavocCalls int      `json:"calls_abstracted_by_inferred_frame"`
	Notes      []string `json:"imprecision_notes,omitempty"`
}

var unsafeNameRe = regexp.MustCompile(`[^A-Za-z0-9_.-]+`)

func fileSafe(s string) string {
	s = strings.ReplaceAll(s, repoMod+"/", "")
	s = unsafeNameRe.ReplaceAllString(s, "_")
	if len(s) > 150 {
		s = s[:150]
	}
	return s
}

func hasProp(ps []string, p string) bool {
	for _, x := range ps {
		if x == p || x == "ALL" {
			return true
		}
	}
	return false
}

func contractMentions(ct *Contract, prop string) bool {
	if hasProp(ct.Props, prop) {
		return true
	}
	for _, c := range ct.Ensures {
		if hasProp(c.Props, prop) {
			return true
		}
	}
	for _, c := range ct.Requires {
		if hasProp(c.Props, prop) {
			return true
		}
	}
	return false
}

func cmdCheck(args []string) {
	fs := flag.NewFlagSet("check", flag.ExitOnError)
	repo := fs.String("repo", "/repo", "")
	verif := fs.String("verif", "/verif", "")
	tier := fs.String("tier", "quick", "")
	jobs := fs.Int("j", 8, "")
	noEvidence := fs.Bool("no-evidence", false, "")
	fs.Parse(args)
	if fs.NArg() < 1 {
		fmt.Fprintln(os.Stderr, "usage: gvc check <property>")
		os.Exit(2)
	}
	prop := fs.Arg(0)
	if t := os.Getenv("VERIF_TIER"); t != "" && *tier == "" {
		*tier = t
	}
	seed := 0
	if s := os.Getenv("VERIF_SEED"); s != "" {
		seed, _ = strconv.Atoi(s)
	}
	// per-obligation solver budget; obligations claimed on the unchanged tree discharge in well
	// under a third of it (slowest: ~10 s on the 5 MB queries of verifyHeader)
	timeout := 40
	if *tier == "thorough" {
		timeout = 120
	}
	t0 := time.Now()
	e, err := loadEngine(*repo, defaultPkgs)
	if err != nil {
		// the tree does not load: this is a broken build, not a verdict
		fmt.Fprintln(os.Stderr, "gvc: cannot load /repo:", err)
		replay := writeReplayFile(*verif, prop, "load-error", map[string]interface{}{"obligation": "load", "error": err.Error()})
		fmt.Printf("VIOLATION property=%s replay=%s no-failing-input-found\n", prop, replay)
		os.Exit(1)
	}
	loadS := time.Since(t0).Seconds()
	known, _ := loadKnown(filepath.Join(*verif, "KNOWN_FINDINGS.txt"))
	work, _ := os.MkdirTemp("", "gvc-"+prop+"-")
	defer os.RemoveAll(work)

	var allObls []*Obl
	var funcs []funcRecord
	var specErrs []string
	unannotatedLoops := 0
	notesAll := map[string]int{}
	usedTrusted := map[string]bool{}
	for _, fn := range e.contractFns {
		ct := e.contracts[fn]
		if !contractMentions(ct, prop) {
			continue
		}
		if ct.Trusted {
			usedTrusted[fn.String()] = true
			continue
		}
		for _, en := range ct.Ensures {
			if en.Assumed {
				usedTrusted[fn.String()+" [assumed clause: "+en.Text+"]"] = true
			}
		}
		for _, rq := range ct.Requires {
			if rq.Assumed {
				usedTrusted[fn.String()+" [environment assumption at entry, not an obligation of callers: "+rq.Text+"]"] = true
			}
		}
		rep := e.verifyFunction(fn, ct)
		for _, ut := range rep.UsedTrusted {
			usedTrusted[ut] = true
		}
		var mine []*Obl
		for _, o := range rep.Obls {
			if hasProp(o.Props, prop) {
				mine = append(mine, o)
			}
		}
		specErrs = append(specErrs, rep.SpecErrs...)
		var notes []string
		for _, k := range sortedKeys(rep.Notes) {
			notes = append(notes, fmt.Sprintf("%s x%d", k, rep.Notes[k]))
			notesAll[k] += rep.Notes[k]
			if strings.HasPrefix(k, "loop-without-invariant") {
				unannotatedLoops++
			}
		}
		funcs = append(funcs, funcRecord{Func: strings.ReplaceAll(rep.Func, repoMod+"/", ""), Blocks: rep.Blocks, Instrs: rep.Instrs, Loops: rep.Loops,
			Exits: rep.Exits, Obls: len(mine), HavocCalls: rep.HavocCalls, Notes: notes})
		allObls = append(allObls, mine...)
	}
	for _, sf := range e.specFiles {
		need := false
		for _, g := range sf.Globals {
			if hasProp(g.Props, prop) {
				need = true
			}
			if len(g.Props) == 0 {
				specErrs = append(specErrs, fmt.Sprintf("%s:%d: global fact without property tag", g.File, g.Line))
			}
		}
		if !need {
			continue
		}
		rep := e.verifyGlobals(sf)
		specErrs = append(specErrs, rep.SpecErrs...)
		n := 0
		for _, o := range rep.Obls {
			if o.Kind == "cover" || hasProp(o.Props, prop) {
				o.Props = append(o.Props, prop)
				allObls = append(allObls, o)
				n++
			}
		}
		funcs = append(funcs, funcRecord{Func: rep.Func, Blocks: rep.Blocks, Instrs: rep.Instrs, Exits: rep.Exits, Obls: n})
	}
	for _, sf := range e.specFiles {
		for _, l := range sf.Lemmas {
			if !hasProp(l.Props, prop) {
				continue
			}
			rep := e.verifyLemma(l)
			specErrs = append(specErrs, rep.SpecErrs...)
			allObls = append(allObls, rep.Obls...)
			funcs = append(funcs, funcRecord{Func: rep.Func, Obls: len(rep.Obls)})
		}
	}
	// structural obligations (ssa-frame back end)
	structObls := e.structuralChecks(prop)
	genS := time.Since(t0).Seconds() - loadS

	solveAll(allObls, solveOpts{timeoutS: timeout, workDir: work, jobs: *jobs, seed: seed, all: *tier == "thorough", fullCovers: *tier == "thorough"})

	// classify
	violations := 0
	var lines []string
	nObl, nDis := 0, 0
	covers, canaries := 0, 0
	deadSites := 0
	inconclusiveCovers := 0
	byBackend := map[string]int{}
	var solverTotal, solverMax float64
	var records []oblRecord
	var knownHit []string
	var samples []interface{}
	var lastReplay *replayResult
	replayed := 0
	_ = replayed
	report := func(o *Obl, reason string, confirmed bool) {
		violations++
		info := map[string]interface{}{
			"property": prop, "obligation": o.Name, "kind": o.Kind, "clause": o.Clause, "exit": o.Exit, "position": o.Pos,
			"solver_result": o.Result, "solver": o.Solver, "reason": reason, "model": o.Model, "solver_output": firstLines(o.RawOut, 40),
		}
		if o.ctx != nil {
			info["smt2"] = o.script(true)
			if o.ctx.fn != nil {
				info["package_dir"] = filepath.Dir(e.fset.Position(o.ctx.fn.Pos()).Filename)
			}
		}
		if lastReplay != nil {
			info["replay"] = lastReplay
			lastReplay = nil
		}
		path := writeReplayFile(*verif, prop, o.Name, info)
		suffix := ""
		if !confirmed {
			suffix = " no-failing-input-found"
		}
		lines = append(lines, fmt.Sprintf("VIOLATION property=%s replay=%s%s", prop, path, suffix))
		fmt.Fprintf(os.Stderr, "  failed obligation: %s [%s] %s\n", o.Name, o.Result, reason)
	}
	for _, o := range allObls {
		solverTotal += o.TimeS
		if o.TimeS > solverMax {
			solverMax = o.TimeS
		}
		rec := oblRecord{Name: strings.ReplaceAll(o.Name, repoMod+"/", ""), Kind: o.Kind, Result: o.Result, Solver: o.Solver, TimeS: o.TimeS, Size: o.Size, Clause: o.Clause}
		records = append(records, rec)
		if o.Kind == "cover-pre" {
			continue
		}
		if o.Kind == "cover-exit" {
			covers++
			if o.Result == "unsat" {
				if !e.deadExitListed(*verif, prop, rec.Name) {
					report(o, "vacuity: this exit is unreachable under the contract's preconditions and the callee contracts, so its postconditions hold trivially (not listed in DEAD_EXITS.txt)", false)
				} else {
					deadSites++
				}
			} else if o.Result != "sat" {
				inconclusiveCovers++
			}
			continue
		}
		if o.ExpectSat {
			if o.Kind == "cover" {
				covers++
			} else {
				canaries++
			}
			if o.Result == "unsat" && o.Pre != nil && o.Pre.Result == "unsat" {
				// the call site is unreachable under the function's preconditions (dead branch): not vacuity
				deadSites++
				continue
			}
			if o.Result == "unsat" {
				report(o, "vacuity: "+o.Kind+" query is unsatisfiable (contradictory assumptions or unreachable exits)", false)
			} else if o.Result != "sat" {
				inconclusiveCovers++
			}
			continue
		}
		if k := matchKnown(known, prop, rec.Name); k != nil {
			if o.Result == "unsat" {
				// a listed finding that no longer fails: not an alarm, but say so
				fmt.Printf("NOTE: known finding no longer reproduces: property=%s %s\n", prop, rec.Name)
				nObl++
				nDis++
				byBackend[o.Solver]++
				continue
			}
			knownHit = append(knownHit, rec.Name)
			lines = append(lines, fmt.Sprintf("KNOWN-FINDING: property=%s %s :: %s", prop, rec.Name, k.Desc))
			continue
		}
		nObl++
		switch o.Result {
		case "unsat":
			nDis++
			byBackend[o.Solver]++
			if len(samples) < 3 && o.Solver != "trivial" {
				samples = append(samples, map[string]interface{}{"obligation": rec.Name, "kind": o.Kind, "clause": o.Clause, "smt_bytes": o.Size, "solver": o.Solver, "time_s": o.TimeS})
			}
		case "sat":
			rp := e.tryReplay(o, prop, *verif)
			lastReplay = rp
			reason := "refuted: the solver found a counterexample"
			if rp.Confirmed {
				reason += "; replayed on the real code: the clause is false for the solver's input"
				replayed++
			} else if rp.Attempted {
				reason += "; replay on the real code did not reproduce it (" + rp.Reason + ")"
			} else {
				reason += "; not replayable (" + rp.Reason + ")"
			}
			report(o, reason, rp.Confirmed)
		default:
			report(o, "undecided ("+o.Result+") on an obligation that is claimed as discharged on the unchanged tree", false)
		}
	}
	for _, so := range structObls {
		rec := oblRecord{Name: so.Name, Kind: "structural", Result: "unsat", Solver: "ssa-frame", Clause: so.Clause}
		if !so.OK {
			rec.Result = "sat"
		}
		records = append(records, rec)
		if k := matchKnown(known, prop, so.Name); k != nil && !so.OK {
			knownHit = append(knownHit, so.Name)
			lines = append(lines, fmt.Sprintf("KNOWN-FINDING: property=%s %s :: %s", prop, so.Name, k.Desc))
			continue
		}
		nObl++
		if so.OK {
			nDis++
			byBackend["ssa-frame"]++
			if len(samples) < 4 {
				samples = append(samples, map[string]interface{}{"obligation": so.Name, "kind": "structural", "clause": so.Clause, "detail": so.Detail})
			}
		} else {
			violations++
			path := writeReplayFile(*verif, prop, so.Name, map[string]interface{}{"property": prop, "obligation": so.Name, "kind": "structural", "clause": so.Clause, "detail": so.Detail})
			suffix := " no-failing-input-found"
			if so.Confirmed {
				suffix = ""
			}
			lines = append(lines, fmt.Sprintf("VIOLATION property=%s replay=%s%s", prop, path, suffix))
			fmt.Fprintf(os.Stderr, "  failed structural obligation: %s: %s\n", so.Name, so.Detail)
		}
	}
	for _, se := range specErrs {
		violations++
		path := writeReplayFile(*verif, prop, "contract-error-"+se, map[string]interface{}{"property": prop, "obligation": "contract-resolution", "error": se})
		lines = append(lines, fmt.Sprintf("VIOLATION property=%s replay=%s no-failing-input-found", prop, path))
		fmt.Fprintf(os.Stderr, "  contract error: %s\n", se)
	}
	// vacuity: the obligation index must be covered
	if missing := e.checkIndex(*verif, prop, allObls, structObls); len(missing) > 0 {
		for _, m := range missing {
			violations++
			path := writeReplayFile(*verif, prop, "missing-"+m, map[string]interface{}{"property": prop, "obligation": m, "error": "an obligation group recorded in contracts.idx was not generated on this tree (function or clause vanished)"})
			lines = append(lines, fmt.Sprintf("VIOLATION property=%s replay=%s no-failing-input-found", prop, path))
		}
	}
	if nObl == 0 && violations == 0 {
		fmt.Fprintf(os.Stderr, "gvc: property %s generated no obligations\n", prop)
		violations++
		path := writeReplayFile(*verif, prop, "no-obligations", map[string]interface{}{"property": prop, "error": "no obligations generated"})
		lines = append(lines, fmt.Sprintf("VIOLATION property=%s replay=%s no-failing-input-found", prop, path))
	}
	wall := time.Since(t0).Seconds()
	sort.Strings(knownHit)
	for _, l := range lines {
		fmt.Println(l)
	}
	fmt.Printf("property %s: %d obligations, %d discharged, %d known findings, %d violations, %d cover queries, %d canaries (load %.1fs, generate %.1fs, total %.1fs)\n",
		prop, nObl, nDis, len(knownHit), violations, covers, canaries, loadS, genS, wall)
	if !*noEvidence {
		var trusted []string
		for k := range usedTrusted {
			trusted = append(trusted, k)
		}
		sort.Strings(trusted)
		ev := map[string]interface{}{
			"property_id": prop,
			"tier":        *tier,
			"seed":        seed,
			"level":       "proof",
			"wall_s":      wall,
			"violations":  violations,
			"coverage": map[string]interface{}{
				"obligations":               nObl,
				"discharged":                nDis,
				"checker_cmd":               fmt.Sprintf("/verif/check %s --tier %s  (gvc: go/ssa VC generator; solvers raced: z3 5.1.0, cvc5 1.0.3, z3 4.8.12; timeout %ds per obligation)", prop, *tier, timeout),
				"trusted_base":              trustedBase(notesAll, trusted),
				"functions_under_contract":  funcs,
				"by_backend":                byBackend,
				"solver_time_s":             map[string]float64{"total": round2(solverTotal), "max": round2(solverMax)},
				"cover_queries":             covers,
				"call_sites_unreachable_under_preconditions": deadSites,
				"cover_queries_inconclusive": inconclusiveCovers,
				"canaries":                  canaries,
				"known_findings":            knownHit,
				"unannotated_loops_havocked": unannotatedLoops,
				"samples":                   samples,
				"obligation_list":           records,
				"not_claimed":               notClaimed(prop),
				"bounded":                   []string{},
			},
			"assumptions": assumptionsFor(prop, notesAll),
		}
		os.MkdirAll(filepath.Join(*verif, "evidence"), 0o755)
		data, _ := json.MarshalIndent(ev, "", " ")
		os.WriteFile(filepath.Join(*verif, "evidence", prop+".json"), data, 0o644)
	}
	if violations > 0 {
		os.Exit(1)
	}
}

func round2(x float64) float64 { return float64(int(x*100+0.5)) / 100 }

func writeReplayFile(verif, prop, name string, info map[string]interface{}) string {
	dir := filepath.Join(verif, "replays", prop)
	os.MkdirAll(dir, 0o755)
	path := filepath.Join(dir, fileSafe(name)+".json")
	data, _ := json.MarshalIndent(info, "", " ")
	os.WriteFile(path, data, 0o644)
	return path
}

func trustedBase(notes map[string]int, trusted []string) []string {
	tb := []string{
		"go/packages + go/types + go/ssa (x/tools v0.29.0) produce the IR the compiler would from /repo's working tree",
		"gvc's SSA-to-SMT translation (memory model: Burstall-Bornat per struct field, typed element/pointee memories, allocation counter freshness)",
		"SMT solvers z3 5.1.0 / cvc5 1.0.3 / z3 4.8.12 (raced; disagreement is reported as a failure)",
		"library models assumed, not proved: math/big.Int and holiman/uint256 methods (mathematical integers), errors.New/fmt.Errorf return non-nil, sync primitives are no-ops, bytes.Equal as an uninterpreted congruence",
		"calls without contract: small bodies are inlined (depth<=5); others are abstracted by their inferred write frame (CHA call graph of the loaded packages) with fresh results",
		"append returns a fresh backing array (aliasing of result and argument after an in-place append is not modelled)",
		"termination is not verified",
	}
	for _, t := range trusted {
		tb = append(tb, "assumed contract (declared `trusted`, not verified against the body): "+strings.ReplaceAll(t, repoMod+"/", ""))
	}
	if notes["go-statement"] > 0 {
		tb = append(tb, "goroutine spawns are abstracted as calls with inferred frame; interleavings are not explored")
	}
	return tb
}

// checkIndex compares generated obligation groups (function + clause kind/ordinal) with contracts.idx.
func (e *Engine) checkIndex(verif, prop string, obls []*Obl, sobls []*StructObl) []string {
	data, err := os.ReadFile(filepath.Join(verif, "contracts.idx"))
	if err != nil {
		return nil
	}
	have := map[string]bool{}
	for _, g := range oblGroups(obls, sobls) {
		have[g] = true
	}
	var missing []string
	for _, ln := range strings.Split(string(data), "\n") {
		fs := strings.SplitN(strings.TrimSpace(ln), " ", 2)
		if len(fs) != 2 || fs[0] != prop {
			continue
		}
		if !have[fs[1]] {
			missing = append(missing, fs[1])
		}
	}
	return missing
}

var exitRe = regexp.MustCompile(`/exit\[.*$`)
var safetyRe = regexp.MustCompile(`/safety\[.*$`)
var preserveRe = regexp.MustCompile(`/preserve@b\d+$`)

func oblGroups(obls []*Obl, sobls []*StructObl) []string {
	set := map[string]bool{}
	for _, o := range obls {
		n := strings.ReplaceAll(o.Name, repoMod+"/", "")
		n = exitRe.ReplaceAllString(n, "")
		n = safetyRe.ReplaceAllString(n, "/safety")
		n = preserveRe.ReplaceAllString(n, "/preserve")
		if strings.Contains(n, "/call[") {
			continue
		}
		set[n] = true
	}
	for _, s := range sobls {
		set["structural:"+s.Group] = true
	}
	var out []string
	for k := range set {
		out = append(out, k)
	}
	sort.Strings(out)
	return out
}

var deadExits map[string]bool

// deadExitListed: exits that are unreachable on the unchanged tree (dead branches under the
// stated preconditions) are listed in DEAD_EXITS.txt so that a newly unreachable exit is noticed.
func (e *Engine) deadExitListed(verif, prop, name string) bool {
	if deadExits == nil {
		deadExits = map[string]bool{}
		if data, err := os.ReadFile(filepath.Join(verif, "DEAD_EXITS.txt")); err == nil {
			for _, ln := range strings.Split(string(data), "\n") {
				ln = strings.TrimSpace(ln)
				if ln != "" && !strings.HasPrefix(ln, "#") {
					deadExits[ln] = true
				}
			}
		}
	}
	return deadExits[name]
}
