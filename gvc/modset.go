package main

// Frame inference: per-function sets of memory arrays that may be written
// (transitively over a CHA-style call graph of the loaded packages).

import (
	"fmt"
	"go/types"
	"sort"
	"strings"

	"golang.org/x/tools/go/ssa"
)

type ModSet struct {
	top bool
	pats []string // prefix patterns ("H|core/state.*" is stored as "H|core/state.")
	m   map[string]bool
	// root[n]: bit k (k<62) = written through an object reachable from parameter k;
	// bit 63 = written through anything else (absolute). Only meaningful in summaries.
	root map[string]uint64
}

const rootAbs = uint64(1) << 63

func newModSet() *ModSet { return &ModSet{m: map[string]bool{}, root: map[string]uint64{}} }

func (s *ModSet) add(n string) bool { return s.addRoot(n, rootAbs) }

func (s *ModSet) addRoot(n string, mask uint64) bool {
	if s.top {
		return false
	}
	old := s.root[n]
	if s.m[n] && old|mask == old {
		return false
	}
	s.m[n] = true
	s.root[n] = old | mask
	return true
}

func (s *ModSet) has(n string) bool {
	if s.top || s.m[n] {
		return true
	}
	for _, p := range s.pats {
		if strings.HasPrefix(n, p) {
			return true
		}
	}
	return false
}

func (s *ModSet) addPattern(p string) bool {
	if p == "*" {
		if s.top {
			return false
		}
		s.top = true
		return true
	}
	if strings.HasSuffix(p, "*") {
		pre := strings.TrimSuffix(p, "*")
		for _, q := range s.pats {
			if q == pre {
				return false
			}
		}
		s.pats = append(s.pats, pre)
		return true
	}
	return s.add(p)
}

func (s *ModSet) union(o *ModSet) bool {
	if o == nil {
		return false
	}
	if s.top {
		return false
	}
	if o.top {
		s.top = true
		return true
	}
	ch := false
	for k := range o.m {
		if s.addRoot(k, rootAbs) {
			ch = true
		}
	}
	for _, p := range o.pats {
		if s.addPattern(p + "*") {
			ch = true
		}
	}
	return ch
}

// rootOf classifies the object a pointer/slice/map value belongs to:
// -2 function-local fresh allocation, k>=0 reachable from parameter k, -1 anything else.
func rootOf(v ssa.Value, depth int) int {
	return rootOfV(v, depth, map[ssa.Value]bool{})
}

func rootOfV(v ssa.Value, depth int, visiting map[ssa.Value]bool) int {
	if depth > 30 {
		return -1
	}
	rootOf := func(v ssa.Value, d int) int { return rootOfV(v, d, visiting) }
	switch x := v.(type) {
	case *ssa.Alloc, *ssa.MakeSlice, *ssa.MakeMap:
		return -2
	case *ssa.Parameter:
		for i, p := range x.Parent().Params {
			if p == x {
				if i < 62 {
					return i
				}
				return -1
			}
		}
		return -1
	case *ssa.FieldAddr:
		return rootOf(x.X, depth+1)
	case *ssa.IndexAddr:
		return rootOf(x.X, depth+1)
	case *ssa.ChangeType:
		return rootOf(x.X, depth+1)
	case *ssa.Slice:
		return rootOf(x.X, depth+1)
	case *ssa.SliceToArrayPointer:
		return rootOf(x.X, depth+1)
	case *ssa.MakeInterface:
		if pointerLike(x.X.Type()) {
			return rootOf(x.X, depth+1)
		}
		return -2
	case *ssa.Phi:
		if visiting[v] {
			return -3
		}
		visiting[v] = true
		defer delete(visiting, v)
		r := -3
		for _, e := range x.Edges {
			if e == v {
				continue
			}
			er := rootOf(e, depth+1)
			if er == -3 {
				continue // cycle back into a phi under evaluation
			}
			if r == -3 {
				r = er
			} else if r != er {
				return -1
			}
		}
		if r == -3 {
			return -1
		}
		return r
	case *ssa.Const:
		return -2 // nil
	case *ssa.Call:
		if callee, ok := x.Call.Value.(*ssa.Function); ok && callee.Pkg != nil {
			p := callee.Pkg.Pkg.Path()
			if p == "math/big" || p == "github.com/holiman/uint256" {
				sig := callee.Signature
				if sig.Recv() != nil && sig.Results().Len() >= 1 && types.Identical(sig.Results().At(0).Type(), sig.Recv().Type()) && len(x.Call.Args) > 0 {
					// z.Op(...) returns z
					return rootOf(x.Call.Args[0], depth+1)
				}
				switch callee.Name() {
				case "NewInt", "ToBig", "Clone", "FromBig", "MustFromBig", "NewFloat":
					return -2
				}
			}
		}
	case *ssa.Extract:
		if c, ok := x.Tuple.(*ssa.Call); ok && x.Index == 0 {
			return rootOf(c, depth+1)
		}
	}
	return -1
}

func rootMask(r int) uint64 {
	switch {
	case r == -2:
		return 0
	case r >= 0:
		return uint64(1) << uint(r)
	}
	return rootAbs
}

// unionCall merges a callee summary into s for a call whose argument roots are given.
func (s *ModSet) unionCall(o *ModSet, argRoots []int) bool {
	if o == nil || s.top {
		return false
	}
	if o.top {
		s.top = true
		return true
	}
	ch := false
	for k := range o.m {
		cm := o.root[k]
		var mask uint64
		if cm&rootAbs != 0 {
			mask |= rootAbs
		}
		for j := 0; j < 62; j++ {
			if cm&(uint64(1)<<uint(j)) != 0 {
				if j < len(argRoots) {
					mask |= rootMask(argRoots[j])
				} else {
					mask |= rootAbs
				}
			}
		}
		if mask == 0 {
			continue // writes only into objects that are local to the caller
		}
		if s.addRoot(k, mask) {
			ch = true
		}
	}
	for _, p := range o.pats {
		if s.addPattern(p + "*") {
			ch = true
		}
	}
	return ch
}

func (s *ModSet) list() []string {
	if s.top {
		return []string{"*"}
	}
	var out []string
	for _, p := range s.pats {
		out = append(out, p+"*")
	}
	for k := range s.m {
		out = append(out, k)
	}
	sort.Strings(out)
	return out
}

// staticMems returns the memory-array names a store through pointer v may touch,
// and whether the root object is function-local (fresh allocation).
func staticMems(v ssa.Value) (names []string, local bool) {
	l, loc := staticLoc(v, 0)
	if l == nil {
		return nil, loc
	}
	for _, a := range l.accs {
		names = append(names, a.mem)
	}
	return names, loc
}

func staticLoc(v ssa.Value, depth int) (*Loc, bool) {
	if depth > 20 {
		return nil, false
	}
	switch x := v.(type) {
	case *ssa.FieldAddr:
		b, loc := staticLoc(x.X, depth+1)
		if b == nil {
			return nil, loc
		}
		if _, ok := b.typ.Underlying().(*types.Struct); !ok {
			return nil, loc
		}
		return locField(b, x.Field), loc
	case *ssa.IndexAddr:
		switch xt := x.X.Type().Underlying().(type) {
		case *types.Slice:
			_, isMake := x.X.(*ssa.MakeSlice)
			return locElemOfSlice(Val{"?", "0", "?", "?"}, "?", xt.Elem()), isMake
		case *types.Pointer:
			b, loc := staticLoc(x.X, depth+1)
			if b == nil {
				return nil, loc
			}
			if _, ok := b.typ.Underlying().(*types.Array); !ok {
				return nil, loc
			}
			return locElemOfArray(b, "?"), loc
		}
		return nil, false
	case *ssa.Alloc:
		return locOfRef("?", deref(x.Type())), true
	case *ssa.ChangeType:
		b, loc := staticLoc(x.X, depth+1)
		if b == nil {
			return nil, loc
		}
		return &Loc{accs: b.accs, typ: deref(x.Type())}, loc
	}
	if _, ok := v.Type().Underlying().(*types.Pointer); ok {
		return locOfRef("?", deref(v.Type())), false
	}
	return nil, false
}

func elemMems(et types.Type) []string {
	var out []string
	for _, lf := range shapeOf(et) {
		out = append(out, "E|"+elemKey(et)+"|"+lf.Path)
	}
	return out
}

func mapMems(mt *types.Map) []string {
	vm, dm, lm, _, ok := mapNames(mt)
	if !ok {
		return nil
	}
	return append(append([]string{}, vm...), dm, lm)
}

// externalMods: memory an external (body-less) function may write: the pointees
// of its pointer / slice / map arguments (shallow).
func externalMods(sig *types.Signature, recv types.Type, ms *ModSet) {
	addT := func(t types.Type) {
		switch u := t.Underlying().(type) {
		case *types.Pointer:
			for _, a := range locOfRef("?", u.Elem()).accs {
				ms.add(a.mem)
			}
		case *types.Slice:
			for _, n := range elemMems(u.Elem()) {
				ms.add(n)
			}
		case *types.Map:
			for _, n := range mapMems(u) {
				ms.add(n)
			}
		}
	}
	if recv != nil {
		addT(recv)
	}
	if sig.Recv() != nil {
		addT(sig.Recv().Type())
	}
	for i := 0; i < sig.Params().Len(); i++ {
		addT(sig.Params().At(i).Type())
	}
}

type callSite struct {
	callee *ssa.Function
	roots  []int
}

type fnSummary struct {
	mods    *ModSet
	callees []*ssa.Function
	sites   []callSite
	dyn     bool // has dynamic calls of unknown targets
}

func (e *Engine) computeSummaries() {
	e.summ = map[*ssa.Function]*fnSummary{}
	var all []*ssa.Function
	for fn := range e.allFuncs {
		all = append(all, fn)
	}
	for _, fn := range all {
		e.summ[fn] = e.directSummary(fn)
	}
	// fixpoint
	callers := map[*ssa.Function][]*ssa.Function{}
	for fn, s := range e.summ {
		for _, cal := range s.callees {
			callers[cal] = append(callers[cal], fn)
		}
	}
	work := append([]*ssa.Function{}, all...)
	inq := map[*ssa.Function]bool{}
	for _, f := range work {
		inq[f] = true
	}
	for len(work) > 0 {
		fn := work[len(work)-1]
		work = work[:len(work)-1]
		inq[fn] = false
		s := e.summ[fn]
		changed := false
		for _, site := range s.sites {
			cs := e.summ[site.callee]
			if cs == nil {
				cs = e.directSummary(site.callee)
				e.summ[site.callee] = cs
			}
			if s.mods.unionCall(cs.mods, site.roots) {
				changed = true
			}
		}
		for _, an := range fn.AnonFuncs {
			if cs := e.summ[an]; cs != nil {
				if s.mods.union(cs.mods) {
					changed = true
				}
			}
		}
		if changed {
			for _, cr := range callers[fn] {
				if !inq[cr] {
					inq[cr] = true
					work = append(work, cr)
				}
			}
		}
	}
}

func (e *Engine) directSummary(fn *ssa.Function) *fnSummary {
	s := &fnSummary{mods: newModSet()}
	if ct := e.contracts[fn]; ct != nil && ct.HasMod {
		// declared frame (verified by frame obligations, or assumed when the contract is trusted)
		for _, m := range ct.Modifies {
			s.mods.addPattern(m)
		}
		e.contractGhostMods(ct, s.mods)
		return s
	}
	if override, ok := e.modOverride[fn.String()]; ok {
		for _, n := range override {
			s.mods.add(n)
		}
		return s
	}
	if len(fn.Blocks) == 0 {
		if m := lookupModel(fn); m != nil {
			for _, n := range m.mods {
				s.mods.addRoot(n, 1) // library models write only through their receiver (parameter 0)
			}
			return s
		}
		if isKnownPureExternal(fn) {
			return s
		}
		externalModsRooted(fn.Signature, s.mods)
		return s
	}
	if m := lookupModel(fn); m != nil {
		for _, n := range m.mods {
			s.mods.addRoot(n, 1)
		}
		return s
	}
	seen := map[*ssa.Function]bool{}
	for _, b := range fn.Blocks {
		for _, in := range b.Instrs {
			switch x := in.(type) {
			case *ssa.Store:
				names, _ := staticMems(x.Addr)
				mask := rootMask(rootOf(x.Addr, 0))
				if g := globalRoot(x.Addr, 0); g != nil {
					s.mods.addRoot(globalKey(g), rootAbs)
				}
				if mask != 0 {
					if names == nil {
						s.mods.top = true
					}
					for _, n := range names {
						s.mods.addRoot(n, mask)
					}
				}
			case *ssa.MapUpdate:
				if mask := rootMask(rootOf(x.Map, 0)); mask != 0 {
					for _, n := range mapMems(x.Map.Type().Underlying().(*types.Map)) {
						s.mods.addRoot(n, mask)
					}
				}
			case *ssa.Send, *ssa.Select:
				// channel effects are not memory writes in this model
			case ssa.CallInstruction:
				e.callMods(x, s, seen)
			}
		}
	}
	// anonymous functions defined here are reachable through closures
	for _, an := range fn.AnonFuncs {
		if !seen[an] {
			seen[an] = true
			s.callees = append(s.callees, an)
		}
	}
	return s
}

func (e *Engine) callMods(x ssa.CallInstruction, s *fnSummary, seen map[*ssa.Function]bool) {
	com := x.Common()
	var roots []int
	if com.IsInvoke() {
		roots = append(roots, rootOf(com.Value, 0))
	}
	for _, a := range com.Args {
		roots = append(roots, rootOf(a, 0))
	}
	addCallee := func(f *ssa.Function) {
		if f == nil {
			return
		}
		s.sites = append(s.sites, callSite{callee: f, roots: roots})
		if !seen[f] {
			seen[f] = true
			s.callees = append(s.callees, f)
		}
	}
	if com.IsInvoke() {
		if ic := e.ifaceContract(com.Value.Type(), com.Method.Name()); ic != nil {
			e.contractGhostMods(ic, s.mods)
			if ic.HasMod {
				for _, m := range ic.Modifies {
					s.mods.addPattern(m)
				}
				return
			}
		}
		impls := e.implementations(com.Value.Type(), com.Method)
		if len(impls) == 0 {
			sig := com.Method.Type().(*types.Signature)
			externalMods(sig, nil, s.mods)
		}
		for _, f := range impls {
			addCallee(f)
		}
		return
	}
	switch v := com.Value.(type) {
	case *ssa.Function:
		addCallee(v)
		if ct := e.contracts[v]; ct != nil {
			e.contractGhostMods(ct, s.mods)
		}
	case *ssa.Builtin:
		switch v.Name() {
		case "append":
			if sl, ok := com.Args[0].Type().Underlying().(*types.Slice); ok {
				_ = sl // append returns a fresh backing array in this model
			}
		case "copy":
			if sl, ok := com.Args[0].Type().Underlying().(*types.Slice); ok {
				if mask := rootMask(rootOf(com.Args[0], 0)); mask != 0 {
					for _, n := range elemMems(sl.Elem()) {
						s.mods.addRoot(n, mask)
					}
				}
			}
		case "delete":
			if mt, ok := com.Args[0].Type().Underlying().(*types.Map); ok {
				if mask := rootMask(rootOf(com.Args[0], 0)); mask != 0 {
					for _, n := range mapMems(mt) {
						s.mods.addRoot(n, mask)
					}
				}
			}
		case "clear":
			s.mods.top = true
		}
	case *ssa.MakeClosure:
		addCallee(v.Fn.(*ssa.Function))
	default:
		// dynamic call through a function value: contract on the function type or top
		if fc := e.funcTypeContract(com.Value.Type()); fc != nil && fc.HasMod {
			e.contractGhostMods(fc, s.mods)
			for _, m := range fc.Modifies {
				s.mods.add(m)
			}
			return
		}
		if e.funcTypeFrame != nil {
			if ms, ok := e.funcTypeFrame[types.TypeString(com.Value.Type(), nil)]; ok {
				s.mods.union(ms)
				return
			}
		}
		s.dyn = true
		s.mods.top = true
	}
}

// implementations: concrete methods in the loaded program that may be the target
// of an interface method call.
func (e *Engine) implementations(ifaceT types.Type, m *types.Func) []*ssa.Function {
	key := types.TypeString(ifaceT, nil) + "." + m.Name()
	if r, ok := e.implCache[key]; ok {
		return r
	}
	it, ok := ifaceT.Underlying().(*types.Interface)
	var out []*ssa.Function
	if ok {
		for _, T := range e.concreteTypes {
			for _, t := range []types.Type{T, types.NewPointer(T)} {
				if types.Implements(t, it) {
					sel := e.prog.MethodSets.MethodSet(t).Lookup(m.Pkg(), m.Name())
					if sel != nil {
						if f := e.prog.MethodValue(sel); f != nil {
							out = append(out, f)
						}
					}
					break
				}
			}
		}
	}
	e.implCache[key] = out
	return out
}

// instrMods adds the memory an instruction may write to ms.
func (e *Engine) instrMods(in ssa.Instruction, ms *ModSet) {
	switch x := in.(type) {
	case *ssa.Store:
		names, local := staticMems(x.Addr)
		if names == nil && !local {
			ms.top = true
		}
		// inside a loop even local objects are modified relative to the loop entry
		for _, n := range names {
			ms.add(n)
		}
	case *ssa.MapUpdate:
		for _, n := range mapMems(x.Map.Type().Underlying().(*types.Map)) {
			ms.add(n)
		}
	case *ssa.Alloc:
		for _, a := range locOfRef("?", deref(x.Type())).accs {
			ms.add(a.mem)
		}
	case *ssa.MakeSlice:
		for _, n := range elemMems(x.Type().Underlying().(*types.Slice).Elem()) {
			ms.add(n)
		}
	case *ssa.MakeMap:
		for _, n := range mapMems(x.Type().Underlying().(*types.Map)) {
			ms.add(n)
		}
	case *ssa.MakeInterface:
		if !pointerLike(x.X.Type()) {
			if _, isI := x.X.Type().Underlying().(*types.Interface); !isI {
				for _, a := range locOfRef("?", x.X.Type()).accs {
					ms.add(a.mem)
				}
			}
		}
	case *ssa.Convert:
		if sl, ok := x.Type().Underlying().(*types.Slice); ok {
			for _, n := range elemMems(sl.Elem()) {
				ms.add(n)
			}
		}
	case ssa.CallInstruction:
		tmp := &fnSummary{mods: newModSet()}
		e.callMods(x, tmp, map[*ssa.Function]bool{})
		ms.union(tmp.mods)
		for _, cal := range tmp.callees {
			ms.union(e.summaryOf(cal).mods)
			// Writes of the callee into objects it allocated itself need not be counted: those
			// references are fresh relative to the loop entry, where the entry arrays are unconstrained.
		}
		com := x.Common()
		if b, ok := com.Value.(*ssa.Builtin); ok && b.Name() == "append" {
			if sl, ok := com.Args[0].Type().Underlying().(*types.Slice); ok {
				for _, n := range elemMems(sl.Elem()) {
					ms.add(n)
				}
			}
		}
		// interior pointers passed to the call are copied back
		for _, a := range com.Args {
			if names, _ := staticMems(a); names != nil {
				if _, isFA := a.(*ssa.FieldAddr); isFA {
					for _, n := range names {
						ms.add(n)
					}
				}
				if _, isIA := a.(*ssa.IndexAddr); isIA {
					for _, n := range names {
						ms.add(n)
					}
				}
			}
		}
	}
}

// allocMods: arrays touched by allocations (zero-initialisation and stores to
// fresh objects) in fn and its callees. Needed only for loop havoc, where
// "fresh" is relative to the loop entry. Conservative: top if too deep.
func (e *Engine) allocMods(fn *ssa.Function) *ModSet {
	if r, ok := e.allocSumm[fn]; ok {
		return r
	}
	ms := newModSet()
	e.allocSumm[fn] = ms
	visited := map[*ssa.Function]bool{}
	var walk func(f *ssa.Function, depth int)
	walk = func(f *ssa.Function, depth int) {
		if visited[f] || ms.top {
			return
		}
		visited[f] = true
		if len(visited) > 400 {
			ms.top = true
			return
		}
		if m := lookupModel(f); m != nil {
			for _, n := range m.mods {
				ms.add(n)
			}
			for _, n := range m.allocs {
				ms.add(n)
			}
			return
		}
		for _, b := range f.Blocks {
			for _, in := range b.Instrs {
				switch x := in.(type) {
				case *ssa.Store:
					names, _ := staticMems(x.Addr)
					for _, n := range names {
						ms.add(n)
					}
				case *ssa.Alloc, *ssa.MakeSlice, *ssa.MakeMap, *ssa.MakeInterface, *ssa.Convert, *ssa.MapUpdate:
					e.instrModsNoCall(in, ms)
				case ssa.CallInstruction:
					tmp := &fnSummary{mods: newModSet()}
					e.callMods(x, tmp, map[*ssa.Function]bool{})
					ms.union(tmp.mods)
					for _, cal := range tmp.callees {
						walk(cal, depth+1)
					}
					if b, ok := x.Common().Value.(*ssa.Builtin); ok && b.Name() == "append" {
						if sl, ok := x.Common().Args[0].Type().Underlying().(*types.Slice); ok {
							for _, n := range elemMems(sl.Elem()) {
								ms.add(n)
							}
						}
					}
				}
			}
		}
	}
	walk(fn, 0)
	return ms
}

func (e *Engine) instrModsNoCall(in ssa.Instruction, ms *ModSet) {
	if _, ok := in.(ssa.CallInstruction); ok {
		return
	}
	e.instrMods(in, ms)
}

func (e *Engine) summaryOf(fn *ssa.Function) *fnSummary {
	if s, ok := e.summ[fn]; ok {
		return s
	}
	// function outside the precomputed set (e.g. instantiated generic): compute on demand
	s := e.directSummary(fn)
	e.summ[fn] = s
	for i := 0; i < 8; i++ {
		ch := false
		for _, site := range s.sites {
			if s.mods.unionCall(e.summaryOf2(site.callee, 0).mods, site.roots) {
				ch = true
			}
		}
		if !ch {
			break
		}
	}
	return s
}

func (e *Engine) summaryOf2(fn *ssa.Function, depth int) *fnSummary {
	if s, ok := e.summ[fn]; ok {
		return s
	}
	s := e.directSummary(fn)
	e.summ[fn] = s
	if depth > 30 {
		s.mods.top = true
		return s
	}
	for _, site := range s.sites {
		s.mods.unionCall(e.summaryOf2(site.callee, depth+1).mods, site.roots)
	}
	return s
}

func isKnownPureExternal(fn *ssa.Function) bool {
	if fn.Pkg == nil {
		return false
	}
	p := fn.Pkg.Pkg.Path()
	switch p {
	case "fmt":
		n := fn.Name()
		return strings.HasPrefix(n, "Sprint") || n == "Errorf"
	case "errors", "strings", "strconv", "unicode", "unicode/utf8", "math", "math/bits", "bytes", "time", "encoding/hex", "crypto/sha256", "golang.org/x/crypto/sha3", "path/filepath", "reflect":
		if p == "bytes" {
			n := fn.Name()
			return n == "Equal" || n == "Compare" || n == "HasPrefix" || n == "HasSuffix" || n == "Contains" || n == "Index" || n == "IndexByte"
		}
		return true
	}
	if strings.HasPrefix(p, "github.com/sirupsen/logrus") {
		return true
	}
	// cryptographic libraries: read-only on their inputs (results are fresh)
	for _, pre := range []string{"github.com/btcsuite/btcd/btcec", "github.com/decred/dcrd/dcrec", "crypto/ecdsa", "crypto/elliptic", "crypto/sha512",
		"lukechampine.com/blake3", "golang.org/x/crypto/ripemd160", "github.com/btcsuite/btcd/chaincfg/chainhash"} {
		if strings.HasPrefix(p, pre) {
			n := fn.Name()
			if n == "Write" || n == "Read" || strings.HasPrefix(n, "Put") || n == "Reset" || n == "Sum" || strings.HasPrefix(n, "Set") {
				return false
			}
			return true
		}
	}
	if p == "github.com/holiman/uint256" || p == "math/big" {
		switch fn.Name() {
		case "Bytes20", "Bytes32", "Bytes", "CmpUint64", "String", "Hex", "Dec", "BitLen", "ByteLen", "Text", "IsUint64",
			"LtUint64", "GtUint64", "Slt", "Sgt", "CmpBig", "Float64", "TrailingZeroBits", "Bit", "Format", "MarshalText", "MarshalJSON":
			return true
		}
	}
	return false
}

// externalModsRooted: like externalMods, but each array is rooted at the parameter it is reachable from.
func externalModsRooted(sig *types.Signature, ms *ModSet) {
	idx := 0
	addT := func(t types.Type) {
		mask := rootAbs
		if idx < 62 {
			mask = uint64(1) << uint(idx)
		}
		switch u := t.Underlying().(type) {
		case *types.Pointer:
			for _, a := range locOfRef("?", u.Elem()).accs {
				ms.addRoot(a.mem, mask)
			}
		case *types.Slice:
			for _, n := range elemMems(u.Elem()) {
				ms.addRoot(n, mask)
			}
		case *types.Map:
			for _, n := range mapMems(u) {
				ms.addRoot(n, mask)
			}
		}
		idx++
	}
	if sig.Recv() != nil {
		addT(sig.Recv().Type())
	}
	for i := 0; i < sig.Params().Len(); i++ {
		addT(sig.Params().At(i).Type())
	}
}

// globalRoot: the package-level variable an address is derived from, if any.
func globalRoot(v ssa.Value, depth int) *ssa.Global {
	if depth > 20 {
		return nil
	}
	switch x := v.(type) {
	case *ssa.Global:
		return x
	case *ssa.FieldAddr:
		return globalRoot(x.X, depth+1)
	case *ssa.IndexAddr:
		return globalRoot(x.X, depth+1)
	case *ssa.ChangeType:
		return globalRoot(x.X, depth+1)
	}
	return nil
}

// contractGhostMods: ghost arrays a contract updates (ghostset) or may modify (modifies G|x).
func (e *Engine) contractGhostMods(ct *Contract, ms *ModSet) {
	for _, g := range ct.Ghost {
		ms.add("G|" + g.Name)
	}
	for _, m := range ct.Modifies {
		if strings.HasPrefix(m, "G|") {
			ms.add(m)
		}
		if m == "*" {
			for name := range e.ghosts {
				ms.add("G|" + name)
			}
		}
	}
}

// explainTop prints why a function's summary is "modifies everything".
func (e *Engine) explainTop(fn *ssa.Function, depth int, seen map[string]bool) {
	if seen[fn.String()] || depth > 6 {
		return
	}
	seen[fn.String()] = true
	s := e.summaryOf(fn)
	ind := strings.Repeat("  ", depth)
	if !s.mods.top {
		if depth == 0 {
			fmt.Printf("%s%s: not top: %v\n", ind, fn.String(), s.mods.list())
		}
		return
	}
	fmt.Printf("%s%s: TOP (dyn=%v)\n", ind, fn.String(), s.dyn)
	d := e.directSummary(fn)
	if d.mods.top {
		fmt.Printf("%s  direct: store through unknown pointer or dynamic call\n", ind)
		for _, b := range fn.Blocks {
			for _, in := range b.Instrs {
				if ci, ok := in.(ssa.CallInstruction); ok {
					tmp := &fnSummary{mods: newModSet()}
					e.callMods(ci, tmp, map[*ssa.Function]bool{})
					if tmp.mods.top {
						fmt.Printf("%s    dynamic/top call: %s at %s\n", ind, in.String(), e.posString(in.Pos()))
					}
				}
			}
		}
	}
	for _, cal := range d.callees {
		if e.summaryOf(cal).mods.top {
			e.explainTop(cal, depth+1, seen)
		}
	}
}
