package main

// Memory model: locations (Loc) are lists of accessors, one per leaf of the
// pointee type. An accessor names a memory array and an index chain.

import (
	"fmt"
	"os"
	"go/types"
	"strconv"
	"strings"
)

type Val []string

type allocPtr struct {
	base string
	off  int
}

func (a allocPtr) term() string {
	if a.off == 0 {
		return a.base
	}
	return fmt.Sprintf("(+ %s %d)", a.base, a.off)
}

type State struct {
	heap  *Heap
	alloc allocPtr
}

type Acc struct {
	mem  string
	idx  []string
	leaf Leaf
}

type Loc struct {
	accs []Acc
	typ  types.Type // pointee type
}

func memSort(leafSort string, levels int) string {
	s := leafSort
	for i := 0; i < levels; i++ {
		s = arrSort(s)
	}
	return s
}

// locOfRef builds the location denoted by a plain reference p to a value of type t.
func locOfRef(p string, t types.Type) *Loc {
	l := &Loc{typ: t}
	if key, ok := specialNamed(t); ok {
		for _, lf := range shapeOf(t) {
			l.accs = append(l.accs, Acc{mem: "H|" + key + "|" + lf.Path, idx: []string{p}, leaf: lf})
		}
		return l
	}
	switch u := t.Underlying().(type) {
	case *types.Struct:
		key := structKey(t)
		for _, lf := range shapeOf(t) {
			l.accs = append(l.accs, Acc{mem: "H|" + key + "|" + lf.Path, idx: []string{p}, leaf: lf})
		}
	case *types.Array:
		ek := elemKey(u.Elem())
		for _, lf := range shapeOf(t) {
			// lf.Path is "[]"+epath
			l.accs = append(l.accs, Acc{mem: "E|" + ek + "|" + strings.TrimPrefix(lf.Path, "[]"), idx: []string{p}, leaf: lf})
		}
	default:
		key := typeKey(t)
		for _, lf := range shapeOf(t) {
			l.accs = append(l.accs, Acc{mem: "M|" + key + "|" + lf.Path, idx: []string{p}, leaf: lf})
		}
	}
	return l
}

func elemKey(t types.Type) string {
	if key, ok := specialNamed(t); ok {
		return key
	}
	if isStruct(t) {
		return structKey(t)
	}
	// slices / arrays of pointers are separated by the pointee's named type: a []*big.Int can
	// never share a backing array with a []*Transaction (Go has no conversion between them)
	if p, ok := types.Unalias(t).Underlying().(*types.Pointer); ok {
		if _, isNamed := types.Unalias(t).(*types.Pointer); isNamed {
			if n, ok := types.Unalias(p.Elem()).(*types.Named); ok {
				if key, ok := specialNamed(n); ok {
					return "*" + key
				}
				if _, ok := n.Underlying().(*types.Struct); ok {
					return "*" + shortQual(n)
				}
			}
		}
	}
	return typeKey(t)
}

// locField: field i of a struct location.
func locField(l *Loc, i int) *Loc {
	if key, ok := specialNamed(l.typ); ok {
		// field of an abstractly modelled library struct: separate opaque memory
		st := l.typ.Underlying().(*types.Struct)
		ft := st.Field(i).Type()
		n := &Loc{typ: ft}
		var idx []string
		if len(l.accs) > 0 {
			idx = l.accs[0].idx
		} else {
			idx = []string{"0"}
		}
		for _, lf := range shapeOf(ft) {
			n.accs = append(n.accs, Acc{mem: "X|" + key + "." + st.Field(i).Name() + "|" + lf.Path, idx: idx, leaf: lf})
		}
		return n
	}
	st := l.typ.Underlying().(*types.Struct)
	a, b := fieldRange(st, i)
	ft := st.Field(i).Type()
	n := &Loc{typ: ft}
	prefix := "." + st.Field(i).Name()
	for _, acc := range l.accs[a:b] {
		lf := acc.leaf
		lf.Path = strings.TrimPrefix(lf.Path, prefix)
		n.accs = append(n.accs, Acc{mem: acc.mem, idx: acc.idx, leaf: lf})
	}
	return n
}

// locElemOfArray: element idx of an array location.
func locElemOfArray(l *Loc, idx string) *Loc {
	at := l.typ.Underlying().(*types.Array)
	n := &Loc{typ: at.Elem()}
	for _, acc := range l.accs {
		lf := *acc.leaf.Elem
		ix := append(append([]string{}, acc.idx...), idx)
		n.accs = append(n.accs, Acc{mem: acc.mem, idx: ix, leaf: lf})
	}
	return n
}

// locElemOfSlice: element i of a slice value (b,o,l,c) of element type et.
func locElemOfSlice(sv Val, i string, et types.Type) *Loc {
	n := &Loc{typ: et}
	ek := elemKey(et)
	pos := i
	if sv[1] != "0" {
		if i == "0" {
			pos = sv[1]
		} else {
			pos = add(sv[1], i)
		}
	}
	for _, lf := range shapeOf(et) {
		n.accs = append(n.accs, Acc{mem: "E|" + ek + "|" + lf.Path, idx: []string{sv[0], pos}, leaf: lf})
	}
	return n
}

func (c *Ctx) loadAcc(h *Heap, a Acc) string {
	t := c.heapGet(h, a.mem, memSort(a.leaf.Sort, len(a.idx)))
	for _, ix := range a.idx {
		t = c.sel(t, ix)
	}
	return t
}

func (c *Ctx) storeAcc(h *Heap, a Acc, v string) *Heap {
	ms := memSort(a.leaf.Sort, len(a.idx))
	t := c.heapGet(h, a.mem, ms)
	nt := c.storeN(t, a.idx, v)
	return c.heapUpd(h, a.mem, ms, nt)
}

func (c *Ctx) storeN(arr string, idx []string, v string) string {
	if len(idx) == 0 {
		return v
	}
	if len(idx) == 1 {
		return sto(arr, idx[0], v)
	}
	inner := c.sel(arr, idx[0])
	return sto(arr, idx[0], c.storeN(inner, idx[1:], v))
}

func (c *Ctx) load(h *Heap, l *Loc) Val {
	v := make(Val, len(l.accs))
	for i, a := range l.accs {
		v[i] = c.loadAcc(h, a)
		// references stored in the entry heap denote objects that existed at entry
		// every cell of a fixed-width integer memory holds a value of that width (all stores wrap)
		if os.Getenv("GVC_NO_RNG") == "" && c.noBind == 0 && a.leaf.Kind == KInt && a.leaf.Lo != nil && !isLiteral(v[i]) && !c.lazyDone["rng@"+v[i]] {
			c.lazyDone["rng@"+v[i]] = true
			c.asserts = append(c.asserts, between(numBig(a.leaf.Lo), v[i], numBig(a.leaf.Hi)))
		}
		// no memory cell holds the address of an object whose address was never handed out
		if os.Getenv("GVC_NO_PRIV") == "" && c.noBind == 0 && a.leaf.Kind == KRef && !isLiteral(v[i]) && c.privUsed {
			pv := c.heapGet(h, privMem, privSort)
			if pv != "((as const (Array Int Bool)) false)" {
				key := "priv@" + pv + "@" + v[i]
				if !c.lazyDone[key] {
					c.lazyDone[key] = true
					c.asserts = append(c.asserts, not(sel(pv, v[i])))
				}
			}
		}
		if c.noBind == 0 && a.leaf.Kind == KRef && isEntryHeapTerm(v[i]) && !c.lazyDone["entryref@"+v[i]] {
			c.lazyDone["entryref@"+v[i]] = true
			// ... provided the cell itself belongs to an object that existed at entry (a cell of an
			// object allocated later, e.g. the pointee of a fresh pointer returned by a contract with
			// an empty frame, is not part of the entry state although its array name is)
			fact := lt(v[i], "|alloc@0|")
			if len(a.idx) > 0 && !isLiteral(a.idx[0]) && !strings.HasPrefix(a.idx[0], "|in_") {
				fact = implies(lt(a.idx[0], "|alloc@0|"), fact)
			}
			c.asserts = append(c.asserts, fact)
		}
	}
	// type invariants of values stored in the entry heap (ranges, slice/interface structure)
	if c.noBind == 0 && len(v) > 0 && l.typ != nil {
		all := true
		for _, t := range v {
			if !isEntryHeapTerm(t) {
				all = false
				break
			}
		}
		key := "entryinv@" + strings.Join(v, ",")
		if all && !c.lazyDone[key] {
			c.lazyDone[key] = true
			c.assumeRanges(v, l.typ, sTrue, "")
		}
	}
	return v
}

func (c *Ctx) store(h *Heap, l *Loc, v Val) *Heap {
	for i, a := range l.accs {
		if i < len(v) {
			h = c.storeAcc(h, a, v[i])
		}
	}
	return h
}

// sel is select with look-through of known stores (generator-side simplification).
func (c *Ctx) sel(arr, idx string) string {
	a := arr
	for iter := 0; iter < 200; iter++ {
		d := a
		if def, ok := c.defs[a]; ok {
			d = def
		}
		if strings.HasPrefix(d, "(store ") {
			args := sexprArgs(d)
			if len(args) == 3 {
				if args[1] == idx {
					return args[2]
				}
				if distinctTerms(args[1], idx) {
					a = args[0]
					continue
				}
				// undecided: case split, so that pointwise definitions below the store stay reachable
				if c.selDepth < 3 && c.hasLazyBelow(args[0], 0) {
					c.selDepth++
					r := ite(eq(args[1], idx), args[2], c.sel(args[0], idx))
					c.selDepth--
					return r
				}
			}
		} else if strings.HasPrefix(d, "((as const ") {
			args := sexprArgs(d)
			if len(args) == 1 {
				return args[0]
			}
		} else if strings.HasPrefix(d, "(ite ") && c.selDepth < 3 {
			// select distributes over ite (keeps the pointwise definitions of copied arrays reachable)
			args := sexprArgs(d)
			if len(args) == 3 {
				c.selDepth++
				r := ite(args[0], c.sel(args[1], idx), c.sel(args[2], idx))
				c.selDepth--
				return r
			}
		} else if d != a && len(d) > 0 && d[0] != '(' {
			// a bound alias of another array constant
			a = d
			continue
		}
		break
	}
	if lz, ok := c.lazyArr[a]; ok && c.noBind == 0 {
		key := a + "@" + idx
		if !c.lazyDone[key] {
			c.lazyDone[key] = true
			// pointwise instance of the defining axiom of a copied array
			c.asserts = append(c.asserts, eq(app("select", a, idx), lz(idx)))
		}
	}
	return app("select", a, idx)
}

// hasLazyBelow: does the array term (through bound names, stores and ites) rest on an array with a
// lazily instantiated pointwise definition?
func (c *Ctx) hasLazyBelow(a string, depth int) bool {
	if depth > 8 {
		return false
	}
	if _, ok := c.lazyArr[a]; ok {
		return true
	}
	d := a
	if def, ok := c.defs[a]; ok {
		d = def
	}
	if d != a && len(d) > 0 && d[0] != '(' {
		return c.hasLazyBelow(d, depth+1)
	}
	if strings.HasPrefix(d, "(store ") {
		if args := sexprArgs(d); len(args) == 3 {
			return c.hasLazyBelow(args[0], depth+1)
		}
	}
	if strings.HasPrefix(d, "(ite ") {
		if args := sexprArgs(d); len(args) == 3 {
			return c.hasLazyBelow(args[1], depth+1) || c.hasLazyBelow(args[2], depth+1)
		}
	}
	return false
}

// sexprArgs splits "(f a b c)" into [a b c].
func sexprArgs(s string) []string {
	if len(s) < 2 || s[0] != '(' {
		return nil
	}
	s = s[1 : len(s)-1]
	var out []string
	depth := 0
	start := -1
	inq := false
	first := true
	flush := func(end int) {
		if start >= 0 {
			if !first {
				out = append(out, s[start:end])
			}
			first = false
			start = -1
		}
	}
	for i := 0; i < len(s); i++ {
		ch := s[i]
		if inq {
			if ch == '|' {
				inq = false
			}
			continue
		}
		switch ch {
		case '|':
			inq = true
			if start < 0 {
				start = i
			}
		case '(':
			if start < 0 {
				start = i
			}
			depth++
		case ')':
			depth--
		case ' ', '\n', '\t':
			if depth == 0 {
				flush(i)
			}
		default:
			if start < 0 {
				start = i
			}
		}
	}
	flush(len(s))
	return out
}

func litInt(s string) (int64, bool) {
	if strings.HasPrefix(s, "(- ") && strings.HasSuffix(s, ")") {
		n, err := strconv.ParseInt(s[3:len(s)-1], 10, 64)
		return -n, err == nil
	}
	n, err := strconv.ParseInt(s, 10, 64)
	return n, err == nil
}

func splitBaseOff(s string) (string, int64) {
	if strings.HasPrefix(s, "(+ ") {
		args := sexprArgs(s)
		if len(args) == 2 {
			if n, ok := litInt(args[1]); ok {
				return args[0], n
			}
		}
	}
	return s, 0
}

// distinctTerms: syntactic proof that two Int terms differ.
func distinctTerms(a, b string) bool {
	if a == b {
		return false
	}
	na, oka := litInt(a)
	nb, okb := litInt(b)
	if oka && okb {
		return na != nb
	}
	ba, oa := splitBaseOff(a)
	bb, ob := splitBaseOff(b)
	if ba == bb && oa != ob {
		return true
	}
	// allocation refs (>= 1) vs non-positive literals
	if oka && na <= 0 && strings.HasPrefix(bb, "|alloc") && ob >= 0 {
		return true
	}
	if okb && nb <= 0 && strings.HasPrefix(ba, "|alloc") && oa >= 0 {
		return true
	}
	return false
}
