package main

import (
	"encoding/json"
	"fmt"
	"os"
)

// tryReplay attempts to run the solver's counterexample against the real code.
// Returns true when the real code reproduces the violation.
func (e *Engine) tryReplay(o *Obl, prop, verif string) bool {
	return false
}

func cmdReplay(args []string) {
	if len(args) < 1 {
		fmt.Fprintln(os.Stderr, "usage: gvc replay <file>")
		os.Exit(2)
	}
	data, err := os.ReadFile(args[0])
	if err != nil {
		fmt.Fprintln(os.Stderr, err)
		os.Exit(2)
	}
	var info map[string]interface{}
	json.Unmarshal(data, &info)
	fmt.Printf("obligation: %v\nclause: %v\nexit: %v\nreason: %v\n", info["obligation"], info["clause"], info["exit"], info["reason"])
	if r, ok := info["replay"]; ok {
		fmt.Printf("replay: %v\n", r)
	}
}
