package main

// Replay of solver counterexamples against the real code.
//
// For a refuted `ensures` or `safety` obligation of a function whose parameters can be rebuilt
// from the model (integers, booleans, byte slices / arrays, *big.Int, *uint256.Int, structs and
// pointers to structs of the function's own package made of those, slices of those), gvc asks the
// solver for the input values, writes an in-package Go test that calls the real function with
// them and evaluates the failed clause in Go (spec integers as *big.Int), and runs it with
// `go test -overlay` (nothing is written under the repository). The violation is "confirmed"
// when the real code falsifies the clause (or panics, for a safety obligation). Anything outside
// that fragment (interfaces, ghost state, uninterpreted spec functions, foreign structs) is
// reported without replay (the VIOLATION line then ends with no-failing-input-found).

import (
	"encoding/json"
	"fmt"
	"go/ast"
	"go/token"
	"go/types"
	"math/big"
	"os"
	"os/exec"
	"path/filepath"
	"sort"
	"strconv"
	"strings"

	"golang.org/x/tools/go/ssa"
)

type rnode struct {
	kind  string
	typ   types.Type
	terms []string
	kids  []*rnode
	names []string
	n     int
}

const (
	replayMaxBytes = 96
	replayMaxElems = 16
)

type replayer struct {
	c       *Ctx
	e       *Engine
	fn      *ssa.Function
	pkg     *types.Package
	imports map[string]string // path -> name
	terms   []string
	tindex  map[string]int
	vals    []string
	unsup   string
	bounds  []string // size bounds that keep the model reconstructible (tried first)
	pre     []string // statements evaluated before the call
	nvar    int
	lets    map[string]*tval
	defs    map[string]*SpecDefine
	vars    map[string]*tval
	inPost  bool
}

// tval: a translated expression. kind: "int" (code is a *big.Int expression), "bool", "native" (Go value of type typ)
type tval struct {
	code string
	kind string
	typ  types.Type
}

func (r *replayer) fail(format string, a ...interface{}) {
	if r.unsup == "" {
		r.unsup = fmt.Sprintf(format, a...)
	}
}

func (r *replayer) term(t string) int {
	if i, ok := r.tindex[t]; ok {
		return i
	}
	r.tindex[t] = len(r.terms)
	r.terms = append(r.terms, t)
	return len(r.terms) - 1
}

func (r *replayer) qual(p *types.Package) string {
	if p == nil || p == r.pkg {
		return ""
	}
	r.imports[p.Path()] = p.Name()
	return p.Name()
}

func (r *replayer) typeStr(t types.Type) string {
	return types.TypeString(t, r.qual)
}

func isByte(t types.Type) bool {
	b, ok := t.Underlying().(*types.Basic)
	return ok && b.Kind() == types.Uint8
}

// plan builds the reconstruction plan of a value of type t whose leaves are v (entry state).
func (r *replayer) plan(t types.Type, v Val, depth int) *rnode {
	c := r.c
	if depth > 6 {
		r.fail("value nesting too deep")
		return nil
	}
	if key, ok := specialNamed(t); ok {
		if key == "github.com/holiman/uint256.Int" {
			return &rnode{kind: "u256val", typ: t, terms: []string{v[0]}}
		}
		if key == "math/big.Int" {
			return &rnode{kind: "bigval", typ: t, terms: []string{v[0]}}
		}
		r.fail("opaque library type %s", key)
		return nil
	}
	switch u := t.Underlying().(type) {
	case *types.Basic:
		info := u.Info()
		if info&types.IsBoolean != 0 {
			return &rnode{kind: "bool", typ: t, terms: []string{v[0]}}
		}
		if info&types.IsInteger != 0 {
			return &rnode{kind: "int", typ: t, terms: []string{v[0]}}
		}
		r.fail("parameter of basic type %s", u.Name())
		return nil
	case *types.Array:
		if isByte(u.Elem()) && u.Len() <= replayMaxBytes {
			n := &rnode{kind: "bytearr", typ: t, n: int(u.Len())}
			for k := int64(0); k < u.Len(); k++ {
				n.terms = append(n.terms, sel(v[0], num(k)))
			}
			return n
		}
		r.fail("array parameter %s", t)
		return nil
	case *types.Slice:
		st := c.entry
		if isByte(u.Elem()) {
			n := &rnode{kind: "bytes", typ: t, terms: []string{v[0], v[1], v[2], v[3]}}
			r.bounds = append(r.bounds, le(v[2], num(replayMaxBytes)))
			arr := sel(c.heapGet(st.heap, "E|uint8|", memSort("Int", 2)), v[0])
			for k := 0; k < replayMaxBytes; k++ {
				n.terms = append(n.terms, sel(arr, add(v[1], num(int64(k)))))
			}
			return n
		}
		n := &rnode{kind: "slice", typ: t, terms: []string{v[0], v[1], v[2], v[3]}}
		r.bounds = append(r.bounds, le(v[2], num(replayMaxElems)))
		for k := 0; k < replayMaxElems; k++ {
			ev := c.load(st.heap, locElemOfSlice(v, num(int64(k)), u.Elem()))
			kid := r.plan(u.Elem(), ev, depth+1)
			if kid == nil {
				return nil
			}
			n.kids = append(n.kids, kid)
		}
		return n
	case *types.Pointer:
		el := u.Elem()
		if key, ok := specialNamed(el); ok {
			val := c.load(c.entry.heap, locOfRef(v[0], el))
			switch key {
			case "math/big.Int":
				return &rnode{kind: "bigptr", typ: t, terms: []string{v[0], val[0]}}
			case "github.com/holiman/uint256.Int":
				return &rnode{kind: "u256ptr", typ: t, terms: []string{v[0], val[0]}}
			}
			r.fail("pointer to opaque library type %s", key)
			return nil
		}
		if _, ok := el.Underlying().(*types.Struct); ok {
			val := c.load(c.entry.heap, locOfRef(v[0], el))
			kid := r.plan(el, val, depth+1)
			if kid == nil {
				return nil
			}
			return &rnode{kind: "ptr", typ: t, terms: []string{v[0]}, kids: []*rnode{kid}}
		}
		if _, ok := el.Underlying().(*types.Basic); ok {
			val := c.load(c.entry.heap, locOfRef(v[0], el))
			kid := r.plan(el, val, depth+1)
			if kid == nil {
				return nil
			}
			return &rnode{kind: "ptr", typ: t, terms: []string{v[0]}, kids: []*rnode{kid}}
		}
		r.fail("pointer parameter %s", t)
		return nil
	case *types.Struct:
		if named, ok := types.Unalias(t).(*types.Named); ok && named.Obj().Pkg() != r.pkg {
			// a foreign struct: only settable if every field is exported
			for i := 0; i < u.NumFields(); i++ {
				if !u.Field(i).Exported() {
					r.fail("struct %s of another package has unexported fields", t)
					return nil
				}
			}
		}
		n := &rnode{kind: "struct", typ: t}
		for i := 0; i < u.NumFields(); i++ {
			a, b := fieldRange(u, i)
			if b > len(v) {
				r.fail("shape mismatch for %s", t)
				return nil
			}
			kid := r.plan(u.Field(i).Type(), v[a:b], depth+1)
			if kid == nil {
				return nil
			}
			n.kids = append(n.kids, kid)
			n.names = append(n.names, u.Field(i).Name())
		}
		return n
	}
	r.fail("parameter type %s", t)
	return nil
}

func (r *replayer) register(n *rnode) {
	for _, t := range n.terms {
		r.term(t)
	}
	for _, k := range n.kids {
		r.register(k)
	}
}

func (r *replayer) val(t string) string { return r.vals[r.tindex[t]] }

func (r *replayer) ival(t string) *big.Int {
	v, ok := new(big.Int).SetString(r.val(t), 10)
	if !ok {
		r.fail("non-integer model value %q", r.val(t))
		return big.NewInt(0)
	}
	return v
}

// emit returns the Go expression that rebuilds the value.
func (r *replayer) emit(n *rnode) string {
	ts := r.typeStr(n.typ)
	switch n.kind {
	case "bool":
		return r.val(n.terms[0])
	case "int":
		return fmt.Sprintf("%s(%s)", ts, gvIntLit(r.ival(n.terms[0]), n.typ))
	case "bytearr":
		var bs []string
		for _, t := range n.terms {
			bs = append(bs, new(big.Int).And(r.ival(t), big.NewInt(255)).String())
		}
		return fmt.Sprintf("%s{%s}", ts, strings.Join(bs, ", "))
	case "bytes":
		ref, ln, cp := r.ival(n.terms[0]), r.ival(n.terms[2]), r.ival(n.terms[3])
		if ref.Sign() == 0 {
			return fmt.Sprintf("%s(nil)", ts)
		}
		if !ln.IsInt64() || ln.Int64() < 0 || ln.Int64() > replayMaxBytes {
			r.fail("byte slice of length %s in the model", ln)
			return "nil"
		}
		extra := int64(0)
		if cp.Cmp(ln) > 0 {
			extra = 8
		}
		var bs []string
		for k := int64(0); k < ln.Int64(); k++ {
			bs = append(bs, new(big.Int).And(r.ival(n.terms[4+k]), big.NewInt(255)).String())
		}
		return fmt.Sprintf("%s(append(make([]byte, 0, %d), []byte{%s}...))", ts, ln.Int64()+extra, strings.Join(bs, ", "))
	case "slice":
		ref, ln := r.ival(n.terms[0]), r.ival(n.terms[2])
		if ref.Sign() == 0 {
			return fmt.Sprintf("%s(nil)", ts)
		}
		if !ln.IsInt64() || ln.Int64() < 0 || ln.Int64() > replayMaxElems {
			r.fail("slice of length %s in the model", ln)
			return "nil"
		}
		var es []string
		for k := int64(0); k < ln.Int64(); k++ {
			es = append(es, r.emit(n.kids[k]))
		}
		return fmt.Sprintf("%s{%s}", ts, strings.Join(es, ", "))
	case "bigptr":
		r.imports["math/big"] = "big"
		if r.ival(n.terms[0]).Sign() == 0 {
			return "(*big.Int)(nil)"
		}
		return fmt.Sprintf("gvBigLit(%q)", r.ival(n.terms[1]).String())
	case "bigval":
		r.imports["math/big"] = "big"
		return fmt.Sprintf("*gvBigLit(%q)", r.ival(n.terms[0]).String())
	case "u256ptr":
		r.imports["github.com/holiman/uint256"] = "uint256"
		if r.ival(n.terms[0]).Sign() == 0 {
			return "(*uint256.Int)(nil)"
		}
		return fmt.Sprintf("gvU256Lit(%q)", r.ival(n.terms[1]).String())
	case "u256val":
		r.imports["github.com/holiman/uint256"] = "uint256"
		return fmt.Sprintf("*gvU256Lit(%q)", r.ival(n.terms[0]).String())
	case "ptr":
		if r.ival(n.terms[0]).Sign() == 0 {
			return fmt.Sprintf("(%s)(nil)", ts)
		}
		inner := r.emit(n.kids[0])
		if _, ok := n.kids[0].typ.Underlying().(*types.Struct); ok {
			return "&" + inner
		}
		return fmt.Sprintf("func() %s { x := %s; return &x }()", ts, inner)
	case "struct":
		var fs []string
		for i, k := range n.kids {
			fs = append(fs, fmt.Sprintf("%s: %s", n.names[i], r.emit(k)))
		}
		return fmt.Sprintf("%s{%s}", ts, strings.Join(fs, ", "))
	}
	r.fail("cannot emit %s", n.kind)
	return "nil"
}

func gvIntLit(v *big.Int, t types.Type) string {
	b, ok := t.Underlying().(*types.Basic)
	if ok {
		lo, hi := intRange(b)
		if lo != nil && (v.Cmp(lo) < 0 || v.Cmp(hi) > 0) {
			// out-of-range model value (should not happen): wrap
			m := new(big.Int).Sub(hi, lo)
			m.Add(m, big.NewInt(1))
			w := new(big.Int).Sub(v, lo)
			w.Mod(w, m)
			w.Add(w, lo)
			return w.String()
		}
	}
	return v.String()
}

// ---------------------------------------------------------------------------
// clause translation

func (r *replayer) fresh(prefix string) string {
	r.nvar++
	return fmt.Sprintf("%s%d", prefix, r.nvar)
}

func (r *replayer) asInt(v *tval) string {
	if v == nil {
		return "gvInt(0)"
	}
	switch v.kind {
	case "int":
		return v.code
	case "native":
		return "gvInt(" + v.code + ")"
	}
	r.fail("boolean used as a number")
	return "gvInt(0)"
}

func (r *replayer) asBool(v *tval) string {
	if v == nil {
		return "false"
	}
	if v.kind == "bool" {
		return v.code
	}
	if v.kind == "native" {
		if b, ok := v.typ.Underlying().(*types.Basic); ok && b.Info()&types.IsBoolean != 0 {
			return v.code
		}
	}
	r.fail("number used as a boolean")
	return "false"
}

func isIntType(t types.Type) bool {
	if t == nil {
		return false
	}
	b, ok := t.Underlying().(*types.Basic)
	return ok && b.Info()&types.IsInteger != 0
}

func isBoolType(t types.Type) bool {
	if t == nil {
		return false
	}
	b, ok := t.Underlying().(*types.Basic)
	return ok && b.Info()&types.IsBoolean != 0
}

func (r *replayer) numeric(v *tval) bool {
	if v == nil {
		return false
	}
	return v.kind == "int" || (v.kind == "native" && isIntType(v.typ))
}

func substIdents(e ast.Expr, m map[string]ast.Expr) ast.Expr {
	switch x := e.(type) {
	case *ast.Ident:
		if s, ok := m[x.Name]; ok {
			return s
		}
		return x
	case *ast.BinaryExpr:
		return &ast.BinaryExpr{X: substIdents(x.X, m), Op: x.Op, Y: substIdents(x.Y, m)}
	case *ast.UnaryExpr:
		return &ast.UnaryExpr{Op: x.Op, X: substIdents(x.X, m)}
	case *ast.ParenExpr:
		return &ast.ParenExpr{X: substIdents(x.X, m)}
	case *ast.StarExpr:
		return &ast.StarExpr{X: substIdents(x.X, m)}
	case *ast.SelectorExpr:
		return &ast.SelectorExpr{X: substIdents(x.X, m), Sel: x.Sel}
	case *ast.IndexExpr:
		return &ast.IndexExpr{X: substIdents(x.X, m), Index: substIdents(x.Index, m)}
	case *ast.SliceExpr:
		n := &ast.SliceExpr{X: substIdents(x.X, m), Slice3: x.Slice3}
		if x.Low != nil {
			n.Low = substIdents(x.Low, m)
		}
		if x.High != nil {
			n.High = substIdents(x.High, m)
		}
		return n
	case *ast.CallExpr:
		n := &ast.CallExpr{Fun: x.Fun}
		if _, ok := x.Fun.(*ast.Ident); !ok {
			n.Fun = substIdents(x.Fun, m)
		}
		for i, a := range x.Args {
			// the bound variable of a quantifier is not substituted
			if id, ok := x.Fun.(*ast.Ident); ok && (id.Name == "forall" || id.Name == "exists") && i == 0 {
				n.Args = append(n.Args, a)
				continue
			}
			n.Args = append(n.Args, substIdents(a, m))
		}
		return n
	}
	return e
}

func (r *replayer) tr(e ast.Expr) *tval {
	if r.unsup != "" {
		return &tval{code: "false", kind: "bool"}
	}
	switch x := e.(type) {
	case *ast.ParenExpr:
		v := r.tr(x.X)
		return &tval{code: "(" + v.code + ")", kind: v.kind, typ: v.typ}
	case *ast.BasicLit:
		switch x.Kind {
		case token.INT:
			v, ok := new(big.Int).SetString(x.Value, 0)
			if !ok {
				r.fail("literal %s", x.Value)
				return &tval{code: "gvInt(0)", kind: "int"}
			}
			return &tval{code: fmt.Sprintf("gvBigLit(%q)", v.String()), kind: "int"}
		case token.CHAR:
			return &tval{code: "gvInt(" + x.Value + ")", kind: "int"}
		}
		r.fail("literal %s", x.Value)
	case *ast.Ident:
		switch x.Name {
		case "true", "false":
			return &tval{code: x.Name, kind: "bool"}
		case "nil":
			return &tval{code: "nil", kind: "nil"}
		}
		if v, ok := r.vars[x.Name]; ok {
			return v
		}
		if v, ok := r.lets[x.Name]; ok {
			return v
		}
		if r.pkg != nil {
			if obj := r.pkg.Scope().Lookup(x.Name); obj != nil {
				switch o := obj.(type) {
				case *types.Const, *types.Var:
					return &tval{code: x.Name, kind: "native", typ: o.Type()}
				}
			}
		}
		r.fail("identifier %s (ghost, spec function or unknown)", x.Name)
	case *ast.UnaryExpr:
		switch x.Op {
		case token.NOT:
			return &tval{code: "!(" + r.asBool(r.tr(x.X)) + ")", kind: "bool"}
		case token.SUB:
			return &tval{code: "gvNeg(" + r.asInt(r.tr(x.X)) + ")", kind: "int"}
		}
		r.fail("operator %s", x.Op)
	case *ast.StarExpr:
		v := r.tr(x.X)
		if v.kind == "native" {
			if p, ok := v.typ.Underlying().(*types.Pointer); ok {
				return &tval{code: "(*" + v.code + ")", kind: "native", typ: p.Elem()}
			}
		}
		r.fail("dereference of a non-pointer")
	case *ast.BinaryExpr:
		return r.trBinary(x)
	case *ast.SelectorExpr:
		// package-qualified name
		if id, ok := x.X.(*ast.Ident); ok {
			if _, bound := r.vars[id.Name]; !bound {
				if _, isLet := r.lets[id.Name]; !isLet && r.pkg != nil {
					for _, imp := range r.pkg.Imports() {
						if imp.Name() == id.Name {
							if obj := imp.Scope().Lookup(x.Sel.Name); obj != nil && obj.Exported() {
								return &tval{code: r.qual(imp) + "." + x.Sel.Name, kind: "native", typ: obj.Type()}
							}
						}
					}
				}
			}
		}
		v := r.tr(x.X)
		if v.kind != "native" {
			r.fail("field of a non-object")
			break
		}
		obj, _, _ := types.LookupFieldOrMethod(v.typ, true, r.pkg, x.Sel.Name)
		if f, ok := obj.(*types.Var); ok {
			return &tval{code: v.code + "." + x.Sel.Name, kind: "native", typ: f.Type()}
		}
		r.fail("field %s", x.Sel.Name)
	case *ast.IndexExpr:
		v := r.tr(x.X)
		i := r.tr(x.Index)
		if v.kind != "native" {
			r.fail("index of a non-object")
			break
		}
		var et types.Type
		code := v.code
		switch u := v.typ.Underlying().(type) {
		case *types.Slice:
			et = u.Elem()
		case *types.Array:
			et = u.Elem()
		case *types.Pointer:
			if a, ok := u.Elem().Underlying().(*types.Array); ok {
				et = a.Elem()
			}
		case *types.Map:
			kt := r.typeStr(u.Key())
			if isIntType(u.Key()) {
				return &tval{code: fmt.Sprintf("%s[%s(gvToI64(%s))]", code, kt, r.asInt(i)), kind: "native", typ: u.Elem()}
			}
			if i.kind == "native" {
				return &tval{code: fmt.Sprintf("%s[%s]", code, i.code), kind: "native", typ: u.Elem()}
			}
		}
		if et == nil {
			r.fail("index expression on %s", v.typ)
			break
		}
		return &tval{code: fmt.Sprintf("%s[gvIdx(%s)]", code, r.asInt(i)), kind: "native", typ: et}
	case *ast.SliceExpr:
		v := r.tr(x.X)
		if v.kind != "native" {
			r.fail("slice of a non-object")
			break
		}
		lo, hi := "", ""
		if x.Low != nil {
			lo = "gvIdx(" + r.asInt(r.tr(x.Low)) + ")"
		}
		if x.High != nil {
			hi = "gvIdx(" + r.asInt(r.tr(x.High)) + ")"
		}
		var rt types.Type
		switch u := v.typ.Underlying().(type) {
		case *types.Slice:
			rt = v.typ
		case *types.Array:
			rt = types.NewSlice(u.Elem())
		case *types.Basic:
			rt = v.typ
		}
		if rt == nil {
			r.fail("slice expression on %s", v.typ)
			break
		}
		return &tval{code: fmt.Sprintf("%s[%s:%s]", v.code, lo, hi), kind: "native", typ: rt}
	case *ast.CallExpr:
		return r.trCall(x)
	}
	if r.unsup == "" {
		r.fail("expression %s", exprString(e))
	}
	return &tval{code: "false", kind: "bool"}
}

func (r *replayer) trBinary(x *ast.BinaryExpr) *tval {
	switch x.Op {
	case token.LAND, token.LOR:
		a, b := r.asBool(r.tr(x.X)), r.asBool(r.tr(x.Y))
		return &tval{code: "(" + a + " " + x.Op.String() + " " + b + ")", kind: "bool"}
	}
	a, b := r.tr(x.X), r.tr(x.Y)
	switch x.Op {
	case token.ADD, token.SUB, token.MUL, token.QUO, token.REM, token.SHL, token.SHR:
		fn := map[token.Token]string{token.ADD: "gvAdd", token.SUB: "gvSub", token.MUL: "gvMul", token.QUO: "gvDiv", token.REM: "gvMod", token.SHL: "gvShl", token.SHR: "gvShr"}[x.Op]
		return &tval{code: fmt.Sprintf("%s(%s, %s)", fn, r.asInt(a), r.asInt(b)), kind: "int"}
	case token.LSS, token.LEQ, token.GTR, token.GEQ:
		return &tval{code: fmt.Sprintf("(%s.Cmp(%s) %s 0)", r.asInt(a), r.asInt(b), x.Op.String()), kind: "bool"}
	case token.EQL, token.NEQ:
		neg := ""
		if x.Op == token.NEQ {
			neg = "!"
		}
		switch {
		case a.kind == "nil" || b.kind == "nil":
			o := a
			if a.kind == "nil" {
				o = b
			}
			if o.kind != "native" {
				r.fail("nil comparison of a non-object")
				break
			}
			return &tval{code: fmt.Sprintf("%sgvIsNil(%s)", neg, o.code), kind: "bool"}
		case r.numeric(a) || r.numeric(b):
			return &tval{code: fmt.Sprintf("%s(%s.Cmp(%s) == 0)", neg, r.asInt(a), r.asInt(b)), kind: "bool"}
		case a.kind == "bool" || b.kind == "bool" || isBoolType(a.typ) || isBoolType(b.typ):
			return &tval{code: fmt.Sprintf("%s(%s == %s)", neg, r.asBool(a), r.asBool(b)), kind: "bool"}
		case a.kind == "native" && b.kind == "native":
			return &tval{code: fmt.Sprintf("%sgvEq(%s, %s)", neg, a.code, b.code), kind: "bool"}
		}
	}
	r.fail("operator %s", x.Op)
	return &tval{code: "false", kind: "bool"}
}

func (r *replayer) lookupNamed(s string) (types.Type, bool) {
	ptr := strings.HasPrefix(s, "*")
	s = strings.TrimPrefix(s, "*")
	i := strings.LastIndex(s, ".")
	if i < 0 {
		return nil, false
	}
	pn, tn := s[:i], s[i+1:]
	for path, tp := range r.e.tpkgs {
		if tp.Name() == pn || path == pn || strings.HasSuffix(path, "/"+pn) {
			if obj := tp.Scope().Lookup(tn); obj != nil {
				if _, ok := obj.(*types.TypeName); ok {
					var t types.Type = obj.Type()
					if ptr {
						t = types.NewPointer(t)
					}
					return t, true
				}
			}
		}
	}
	return nil, false
}

func strArg(e ast.Expr) (string, bool) {
	if bl, ok := e.(*ast.BasicLit); ok && bl.Kind == token.STRING {
		s, err := strconv.Unquote(bl.Value)
		return s, err == nil
	}
	return "", false
}

func (r *replayer) trCall(x *ast.CallExpr) *tval {
	if id, ok := x.Fun.(*ast.Ident); ok {
		name := id.Name
		if d, ok := r.defs[name]; ok && len(d.Params) == len(x.Args) {
			m := map[string]ast.Expr{}
			for i, p := range d.Params {
				m[p] = &ast.ParenExpr{X: x.Args[i]}
			}
			return r.tr(substIdents(d.Body, m))
		}
		switch name {
		case "old":
			if !r.inPost {
				return r.tr(x.Args[0])
			}
			r.inPost = false
			v := r.tr(x.Args[0])
			r.inPost = true
			nm := r.fresh("gvOld")
			r.pre = append(r.pre, fmt.Sprintf("%s := %s", nm, v.code))
			return &tval{code: nm, kind: v.kind, typ: v.typ}
		case "len", "cap":
			v := r.tr(x.Args[0])
			if v.kind == "native" {
				return &tval{code: fmt.Sprintf("gvInt(%s(%s))", name, v.code), kind: "int"}
			}
			r.fail("len of a non-object")
		case "bigv", "u256":
			v := r.tr(x.Args[0])
			return &tval{code: r.asInt(v), kind: "int"}
		case "ite":
			c, a, b := r.tr(x.Args[0]), r.tr(x.Args[1]), r.tr(x.Args[2])
			if r.numeric(a) || r.numeric(b) {
				return &tval{code: fmt.Sprintf("func() *big.Int { if %s { return %s }; return %s }()", r.asBool(c), r.asInt(a), r.asInt(b)), kind: "int"}
			}
			return &tval{code: fmt.Sprintf("func() bool { if %s { return %s }; return %s }()", r.asBool(c), r.asBool(a), r.asBool(b)), kind: "bool"}
		case "min", "max":
			a, b := r.asInt(r.tr(x.Args[0])), r.asInt(r.tr(x.Args[1]))
			return &tval{code: fmt.Sprintf("gv%s(%s, %s)", strings.Title(name), a, b), kind: "int"}
		case "abs":
			return &tval{code: "gvAbs(" + r.asInt(r.tr(x.Args[0])) + ")", kind: "int"}
		case "pow":
			return &tval{code: fmt.Sprintf("gvPow(%s, %s)", r.asInt(r.tr(x.Args[0])), r.asInt(r.tr(x.Args[1]))), kind: "int"}
		case "quo":
			return &tval{code: fmt.Sprintf("gvQuo(%s, %s)", r.asInt(r.tr(x.Args[0])), r.asInt(r.tr(x.Args[1]))), kind: "int"}
		case "rem":
			return &tval{code: fmt.Sprintf("gvRem(%s, %s)", r.asInt(r.tr(x.Args[0])), r.asInt(r.tr(x.Args[1]))), kind: "int"}
		case "be":
			v := r.tr(x.Args[0])
			if v.kind == "native" {
				return &tval{code: fmt.Sprintf("new(big.Int).SetBytes(%s[:])", v.code), kind: "int"}
			}
		case "forall", "exists":
			bv, ok := x.Args[0].(*ast.Ident)
			if !ok || len(x.Args) != 4 {
				break
			}
			lo, hi := r.asInt(r.tr(x.Args[1])), r.asInt(r.tr(x.Args[2]))
			saved, had := r.vars[bv.Name]
			gv := r.fresh("gvQ")
			r.vars[bv.Name] = &tval{code: gv, kind: "int"}
			body := r.asBool(r.tr(x.Args[3]))
			if had {
				r.vars[bv.Name] = saved
			} else {
				delete(r.vars, bv.Name)
			}
			all := "true"
			if name == "exists" {
				all = "false"
			}
			return &tval{code: fmt.Sprintf("gvQuant(%s, %s, %s, func(%s *big.Int) bool { return %s })", all, lo, hi, gv, body), kind: "bool"}
		case "typeis":
			v := r.tr(x.Args[0])
			s, ok := strArg(x.Args[1])
			if !ok || v.kind != "native" {
				break
			}
			t, ok := r.lookupNamed(s)
			if !ok {
				r.fail("type %s", s)
				break
			}
			return &tval{code: fmt.Sprintf("func() bool { _, ok := interface{}(%s).(%s); return ok }()", v.code, r.typeStr(t)), kind: "bool"}
		case "at":
			// at(dyn(x), "pkg.T"): the T object the interface x points to
			inner, ok := x.Args[0].(*ast.CallExpr)
			s, ok2 := strArg(x.Args[1])
			if !ok || !ok2 {
				break
			}
			if fid, ok := inner.Fun.(*ast.Ident); !ok || (fid.Name != "dyn" && fid.Name != "ref") {
				break
			}
			v := r.tr(inner.Args[0])
			t, ok := r.lookupNamed(s)
			if !ok || v.kind != "native" {
				r.fail("type %s", s)
				break
			}
			return &tval{code: fmt.Sprintf("(*(interface{}(%s).(%s)))", v.code, r.typeStr(types.NewPointer(t))), kind: "native", typ: t}
		case "string":
			v := r.tr(x.Args[0])
			if v.kind == "native" {
				return &tval{code: "string(" + v.code + ")", kind: "native", typ: types.Typ[types.String]}
			}
		case "same":
			a, b := r.tr(x.Args[0]), r.tr(x.Args[1])
			if a.kind == "native" && b.kind == "native" {
				return &tval{code: fmt.Sprintf("gvSame(%s, %s)", a.code, b.code), kind: "bool"}
			}
		case "in":
			m, k := r.tr(x.Args[0]), r.tr(x.Args[1])
			if m.kind == "native" {
				if mt, ok := m.typ.Underlying().(*types.Map); ok {
					key := k.code
					if isIntType(mt.Key()) {
						key = fmt.Sprintf("%s(gvToI64(%s))", r.typeStr(mt.Key()), r.asInt(k))
					}
					return &tval{code: fmt.Sprintf("func() bool { _, ok := %s[%s]; return ok }()", m.code, key), kind: "bool"}
				}
			}
		}
		// a function of the package
		if r.pkg != nil {
			if fobj, ok := r.pkg.Scope().Lookup(name).(*types.Func); ok {
				return r.goCall(name, fobj.Type().(*types.Signature), x.Args)
			}
		}
		r.fail("spec function %s is not executable (ghost / uninterpreted / allocation predicate)", name)
		return &tval{code: "false", kind: "bool"}
	}
	if sx, ok := x.Fun.(*ast.SelectorExpr); ok {
		// method call or package function
		if id, ok := sx.X.(*ast.Ident); ok && r.pkg != nil {
			if _, bound := r.vars[id.Name]; !bound {
				if _, isLet := r.lets[id.Name]; !isLet {
					for _, imp := range r.pkg.Imports() {
						if imp.Name() == id.Name {
							if fobj, ok := imp.Scope().Lookup(sx.Sel.Name).(*types.Func); ok && fobj.Exported() {
								return r.goCall(r.qual(imp)+"."+sx.Sel.Name, fobj.Type().(*types.Signature), x.Args)
							}
						}
					}
				}
			}
		}
		recv := r.tr(sx.X)
		if recv.kind == "native" {
			obj, _, _ := types.LookupFieldOrMethod(recv.typ, true, r.pkg, sx.Sel.Name)
			if m, ok := obj.(*types.Func); ok {
				return r.goCall(recv.code+"."+sx.Sel.Name, m.Type().(*types.Signature), x.Args)
			}
		}
	}
	r.fail("call %s", exprString(x))
	return &tval{code: "false", kind: "bool"}
}

func (r *replayer) goCall(fun string, sig *types.Signature, args []ast.Expr) *tval {
	if sig.Results().Len() != 1 || sig.Variadic() || sig.Params().Len() != len(args) {
		r.fail("call of %s in a specification", fun)
		return &tval{code: "false", kind: "bool"}
	}
	var as []string
	for i, a := range args {
		v := r.tr(a)
		pt := sig.Params().At(i).Type()
		switch {
		case v.kind == "native":
			as = append(as, v.code)
		case isIntType(pt):
			as = append(as, fmt.Sprintf("%s(gvToI64(%s))", r.typeStr(pt), r.asInt(v)))
		case v.kind == "bool":
			as = append(as, v.code)
		default:
			r.fail("argument %d of %s", i, fun)
		}
	}
	return &tval{code: fmt.Sprintf("%s(%s)", fun, strings.Join(as, ", ")), kind: "native", typ: sig.Results().At(0).Type()}
}

// ---------------------------------------------------------------------------

const replayHelpers = `
func gvBigLit(s string) *big.Int { v, _ := new(big.Int).SetString(s, 10); return v }
func gvInt(x interface{}) *big.Int {
	switch v := x.(type) {
	case *big.Int:
		if v == nil {
			return new(big.Int)
		}
		return new(big.Int).Set(v)
	case big.Int:
		return new(big.Int).Set(&v)
	case interface{ ToBig() *big.Int }:
		rv := reflect.ValueOf(x)
		if rv.Kind() == reflect.Ptr && rv.IsNil() {
			return new(big.Int)
		}
		return v.ToBig()
	}
	rv := reflect.ValueOf(x)
	switch rv.Kind() {
	case reflect.Int, reflect.Int8, reflect.Int16, reflect.Int32, reflect.Int64:
		return big.NewInt(rv.Int())
	case reflect.Uint, reflect.Uint8, reflect.Uint16, reflect.Uint32, reflect.Uint64, reflect.Uintptr:
		return new(big.Int).SetUint64(rv.Uint())
	case reflect.Array:
		// uint256.Int by value: four little-endian words
		if rv.Len() == 4 && rv.Type().Elem().Kind() == reflect.Uint64 {
			z := new(big.Int)
			for i := 3; i >= 0; i-- {
				z.Lsh(z, 64)
				z.Or(z, new(big.Int).SetUint64(rv.Index(i).Uint()))
			}
			return z
		}
	case reflect.Bool:
		if rv.Bool() {
			return big.NewInt(1)
		}
		return new(big.Int)
	}
	panic(fmt.Sprintf("gvInt: unsupported %T", x))
}
func gvToI64(x *big.Int) int64 { if x.IsInt64() { return x.Int64() }; return int64(x.Uint64()) }
func gvIdx(x *big.Int) int { if !x.IsInt64() { return -1 }; return int(x.Int64()) }
func gvNeg(a *big.Int) *big.Int    { return new(big.Int).Neg(a) }
func gvAdd(a, b *big.Int) *big.Int { return new(big.Int).Add(a, b) }
func gvSub(a, b *big.Int) *big.Int { return new(big.Int).Sub(a, b) }
func gvMul(a, b *big.Int) *big.Int { return new(big.Int).Mul(a, b) }
func gvDiv(a, b *big.Int) *big.Int { if b.Sign() == 0 { return new(big.Int) }; return new(big.Int).Div(a, b) }
func gvMod(a, b *big.Int) *big.Int { if b.Sign() == 0 { return new(big.Int).Set(a) }; return new(big.Int).Mod(a, b) }
func gvQuo(a, b *big.Int) *big.Int { if b.Sign() == 0 { return new(big.Int) }; return new(big.Int).Quo(a, b) }
func gvRem(a, b *big.Int) *big.Int { if b.Sign() == 0 { return new(big.Int).Set(a) }; return new(big.Int).Rem(a, b) }
func gvShl(a, b *big.Int) *big.Int { return new(big.Int).Lsh(a, uint(b.Uint64())) }
func gvShr(a, b *big.Int) *big.Int { return new(big.Int).Rsh(a, uint(b.Uint64())) }
func gvAbs(a *big.Int) *big.Int    { return new(big.Int).Abs(a) }
func gvMin(a, b *big.Int) *big.Int { if a.Cmp(b) < 0 { return a }; return b }
func gvMax(a, b *big.Int) *big.Int { if a.Cmp(b) > 0 { return a }; return b }
func gvPow(a, b *big.Int) *big.Int { return new(big.Int).Exp(a, b, nil) }
func gvQuant(all bool, lo, hi *big.Int, f func(*big.Int) bool) bool {
	for i := new(big.Int).Set(lo); i.Cmp(hi) < 0; i.Add(i, big.NewInt(1)) {
		if f(new(big.Int).Set(i)) != all {
			return !all
		}
	}
	return all
}
func gvIsNil(x interface{}) bool {
	if x == nil {
		return true
	}
	rv := reflect.ValueOf(x)
	switch rv.Kind() {
	case reflect.Ptr, reflect.Slice, reflect.Map, reflect.Interface, reflect.Func, reflect.Chan:
		return rv.IsNil()
	}
	return false
}
func gvEq(a, b interface{}) (r bool) {
	defer func() {
		if recover() != nil {
			r = reflect.DeepEqual(a, b)
		}
	}()
	return a == b
}
func gvSame(a, b interface{}) bool { return reflect.DeepEqual(a, b) }
`

type replayResult struct {
	Attempted bool   `json:"attempted"`
	Confirmed bool   `json:"confirmed"`
	Reason    string `json:"reason,omitempty"`
	Test      string `json:"test_source,omitempty"`
	Output    string `json:"output,omitempty"`
	Cmd       string `json:"cmd,omitempty"`
}

// tryReplay attempts to run the solver's counterexample against the real code.
func (e *Engine) tryReplay(o *Obl, prop, verif string) *replayResult {
	res := &replayResult{}
	c := o.ctx
	if c == nil || c.fn == nil || c.contract == nil {
		res.Reason = "no function context"
		return res
	}
	if o.Kind != "ensures" && o.Kind != "safety" {
		res.Reason = "only postcondition and safety obligations are replayed"
		return res
	}
	fn := c.fn
	if fn.Pkg == nil || len(fn.FreeVars) > 0 {
		res.Reason = "closure or synthetic function"
		return res
	}
	r := &replayer{c: c, e: e, fn: fn, pkg: fn.Pkg.Pkg, imports: map[string]string{"math/big": "big", "reflect": "reflect", "fmt": "fmt", "testing": "testing"},
		tindex: map[string]int{}, lets: map[string]*tval{}, defs: e.specDefs, vars: map[string]*tval{}}
	c.noBind++
	defer func() { c.noBind-- }()
	nDecl0 := len(c.decls)
	// plan the inputs
	var plans []*rnode
	for i, p := range fn.Params {
		if i >= len(c.fnParams) {
			res.Reason = "parameter bookkeeping"
			return res
		}
		n := r.plan(p.Type(), c.fnParams[i], 0)
		if n == nil {
			res.Reason = "input not reconstructible: " + r.unsup
			return res
		}
		r.register(n)
		plans = append(plans, n)
	}
	// ask the solver for the values
	script := o.scriptOpt(false, false)
	script = strings.Replace(script, "(check-sat)\n", "", 1)
	var extraDecls strings.Builder
	for _, d := range c.decls[nDecl0:] {
		extraDecls.WriteString(d + "\n")
	}
	// declarations made while planning go in front of the assertions
	script = insertDecls(script, extraDecls.String())
	work, _ := os.MkdirTemp("", "gvc-replay-")
	defer os.RemoveAll(work)
	qf := filepath.Join(work, "q.smt2")
	txt := ""
	for attempt := 0; attempt < 2; attempt++ {
		q := "(set-option :produce-models true)\n" + script
		if attempt == 0 {
			// prefer a small counterexample: bounded slice lengths
			for _, bd := range r.bounds {
				q += "(assert " + bd + ")\n"
			}
		}
		q += "(check-sat)\n"
		if len(r.terms) > 0 {
			q += "(get-value (" + strings.Join(r.terms, " ") + "))\n"
		}
		os.WriteFile(qf, []byte(q), 0o644)
		out, _ := exec.Command("z3-new", "-T:30", qf).CombinedOutput()
		txt = string(out)
		if strings.HasPrefix(strings.TrimSpace(txt), "sat") || len(r.bounds) == 0 {
			break
		}
	}
	if !strings.HasPrefix(strings.TrimSpace(txt), "sat") {
		res.Reason = "the model query did not return sat: " + firstLines(txt, 2)
		return res
	}
	vals, ok := parseGetValue(txt[strings.Index(txt, "sat")+3:], len(r.terms))
	if !ok {
		res.Reason = "could not parse the model values"
		return res
	}
	r.vals = vals
	res.Attempted = true
	// build the test
	sig := fn.Signature
	var b strings.Builder
	var argNames []string
	for i, p := range fn.Params {
		nm := p.Name()
		if nm == "" || nm == "_" {
			nm = fmt.Sprintf("gvArg%d", i)
		}
		code := r.emit(plans[i])
		fmt.Fprintf(&b, "\t%s := %s\n\t_ = %s\n", nm, code, nm)
		argNames = append(argNames, nm)
		r.vars[p.Name()] = &tval{code: nm, kind: "native", typ: p.Type()}
	}
	if r.unsup != "" {
		res.Attempted = false
		res.Reason = "input not reconstructible: " + r.unsup
		return res
	}
	// call expression
	call := ""
	if sig.Recv() != nil {
		call = fmt.Sprintf("%s.%s(%s)", argNames[0], fn.Name(), strings.Join(argNames[1:], ", "))
	} else {
		call = fmt.Sprintf("%s(%s)", fn.Name(), strings.Join(argNames, ", "))
	}
	var resNames []string
	for i := 0; i < sig.Results().Len(); i++ {
		resNames = append(resNames, fmt.Sprintf("gvRes%d", i))
	}
	clause := "true"
	if o.Kind == "ensures" {
		// lets (entry state)
		for _, l := range c.contract.Lets {
			v := r.tr(l.Expr)
			nm := "gvLet_" + l.Name
			r.pre = append(r.pre, fmt.Sprintf("%s := %s", nm, v.code), "_ = "+nm)
			r.lets[l.Name] = &tval{code: nm, kind: v.kind, typ: v.typ}
		}
		for i := 0; i < sig.Results().Len(); i++ {
			tv := &tval{code: resNames[i], kind: "native", typ: sig.Results().At(i).Type()}
			r.vars[fmt.Sprintf("result%d", i)] = tv
			if i == 0 {
				r.vars["result"] = tv
			}
			if nm := sig.Results().At(i).Name(); nm != "" && nm != "_" {
				r.vars[nm] = tv
			}
			if i == sig.Results().Len()-1 && isErrorType(sig.Results().At(i).Type()) {
				if _, ok := r.vars["err"]; !ok || sig.Results().At(i).Name() == "" {
					r.vars["err"] = tv
				}
			}
		}
		var clauseExpr ast.Expr
		for _, en := range c.contract.Ensures {
			if en.Text == o.Clause {
				clauseExpr = en.Expr
			}
		}
		if clauseExpr == nil {
			res.Attempted = false
			res.Reason = "clause not found"
			return res
		}
		r.inPost = true
		clause = r.asBool(r.tr(clauseExpr))
		if r.unsup != "" {
			res.Attempted = false
			res.Reason = "clause not executable: " + r.unsup
			return res
		}
	}
	var src strings.Builder
	fmt.Fprintf(&src, "package %s\n\nimport (\n", r.pkg.Name())
	var paths []string
	for p := range r.imports {
		paths = append(paths, p)
	}
	sort.Strings(paths)
	for _, p := range paths {
		fmt.Fprintf(&src, "\t%s %q\n", r.imports[p], p)
	}
	src.WriteString(")\n\nvar _ = reflect.DeepEqual\nvar _ = fmt.Sprint\n")
	if _, ok := r.imports["github.com/holiman/uint256"]; ok {
		src.WriteString("func gvU256Lit(s string) *uint256.Int { z, _ := uint256.FromBig(gvBigLit(s)); return z }\n")
	}
	src.WriteString(replayHelpers)
	src.WriteString("\nfunc TestGvcReplay(t *testing.T) {\n")
	src.WriteString(b.String())
	for _, p := range r.pre {
		src.WriteString("\t" + p + "\n")
	}
	src.WriteString("\tpanicked := true\n\tfunc() {\n\t\tdefer func() {\n\t\t\tif panicked {\n\t\t\t\tfmt.Printf(\"GVC-REPLAY panic: %v\\n\", recover())\n\t\t\t}\n\t\t}()\n")
	if len(resNames) > 0 {
		fmt.Fprintf(&src, "\t\t%s := %s\n", strings.Join(resNames, ", "), call)
		for _, rn := range resNames {
			fmt.Fprintf(&src, "\t\t_ = %s\n", rn)
		}
	} else {
		fmt.Fprintf(&src, "\t\t%s\n", call)
	}
	fmt.Fprintf(&src, "\t\tpanicked = false\n\t\tfunc() {\n\t\t\tdefer func() {\n\t\t\t\tif e := recover(); e != nil {\n\t\t\t\t\tfmt.Printf(\"GVC-REPLAY clause-panic: %%v\\n\", e)\n\t\t\t\t}\n\t\t\t}()\n\t\t\tfmt.Printf(\"GVC-REPLAY clause=%%v\\n\", %s)\n\t\t}()\n\t}()\n}\n", clause)
	res.Test = src.String()
	// run it
	dir := filepath.Dir(e.fset.Position(fn.Pos()).Filename)
	testFile := filepath.Join(dir, "zz_gvc_replay_test.go")
	tf := filepath.Join(work, "replay_test.go")
	os.WriteFile(tf, []byte(res.Test), 0o644)
	ov := map[string]interface{}{"Replace": map[string]string{testFile: tf}}
	ovData, _ := json.Marshal(ov)
	ovf := filepath.Join(work, "overlay.json")
	os.WriteFile(ovf, ovData, 0o644)
	cmd := exec.Command("go", "test", "-overlay", ovf, "-v", "-vet=off", "-count=1", "-timeout", "120s", "-run", "^TestGvcReplay$", ".")
	cmd.Dir = dir
	cmd.Env = append(os.Environ(), "GOFLAGS=-mod=mod", "GOPROXY=off", "GOSUMDB=off", "GOTOOLCHAIN=local")
	res.Cmd = "cd " + dir + " && go test -overlay <overlay.json: " + testFile + " -> test_source> -v -vet=off -count=1 -timeout 120s -run '^TestGvcReplay$' ."
	tout, _ := cmd.CombinedOutput()
	res.Output = firstLines(string(tout), 30)
	switch {
	case o.Kind == "safety":
		res.Confirmed = strings.Contains(string(tout), "GVC-REPLAY panic:")
	default:
		res.Confirmed = strings.Contains(string(tout), "GVC-REPLAY clause=false")
	}
	if !res.Confirmed {
		switch {
		case strings.Contains(string(tout), "GVC-REPLAY clause=true"):
			res.Reason = "the real code satisfies the clause on the solver's input (the model exploits an abstraction of the encoding)"
		case strings.Contains(string(tout), "GVC-REPLAY panic:"):
			res.Reason = "the real code panics on the solver's input before reaching the clause"
		default:
			res.Reason = "the replay test did not produce a verdict"
		}
	}
	return res
}

// insertDecls puts extra declarations before the first assertion of a script.
func insertDecls(script, decls string) string {
	if decls == "" {
		return script
	}
	i := strings.Index(script, "(assert ")
	if i < 0 {
		return script + decls
	}
	return script[:i] + decls + script[i:]
}

// parseGetValue parses "((t1 v1) (t2 v2) ...)" and returns the values in order.
func parseGetValue(s string, n int) ([]string, bool) {
	s = strings.TrimSpace(s)
	if n == 0 {
		return nil, true
	}
	i := strings.Index(s, "(")
	if i < 0 {
		return nil, false
	}
	// find the matching close of the outer list
	pairs := sexprList(s[i:])
	if len(pairs) != n {
		return nil, false
	}
	out := make([]string, n)
	for k, p := range pairs {
		parts := sexprList(p)
		if len(parts) != 2 {
			return nil, false
		}
		out[k] = smtValue(parts[1])
	}
	return out, true
}

// sexprList splits "(a b c)" into all of its elements.
func sexprList(s string) []string {
	s = strings.TrimSpace(s)
	if len(s) < 2 || s[0] != '(' {
		return nil
	}
	// cut at the matching parenthesis
	depth := 0
	inq := false
	end := -1
	for i := 0; i < len(s); i++ {
		ch := s[i]
		if inq {
			if ch == '|' {
				inq = false
			}
			continue
		}
		switch ch {
		case '|':
			inq = true
		case '(':
			depth++
		case ')':
			depth--
			if depth == 0 {
				end = i
			}
		}
		if end >= 0 {
			break
		}
	}
	if end < 0 {
		return nil
	}
	body := s[1:end]
	var out []string
	depth = 0
	inq = false
	start := -1
	for i := 0; i < len(body); i++ {
		ch := body[i]
		if inq {
			if ch == '|' {
				inq = false
			}
			continue
		}
		switch ch {
		case '|':
			inq = true
			if start < 0 {
				start = i
			}
		case '(':
			if start < 0 {
				start = i
			}
			depth++
		case ')':
			depth--
		case ' ', '\n', '\t', '\r':
			if depth == 0 && start >= 0 {
				out = append(out, body[start:i])
				start = -1
			}
		default:
			if start < 0 {
				start = i
			}
		}
	}
	if start >= 0 {
		out = append(out, body[start:])
	}
	return out
}

// smtValue normalises "(- 5)" to "-5".
func smtValue(v string) string {
	v = strings.TrimSpace(v)
	if strings.HasPrefix(v, "(-") {
		inner := strings.TrimSpace(strings.TrimSuffix(strings.TrimPrefix(v, "(-"), ")"))
		return "-" + inner
	}
	return v
}

func cmdReplay(args []string) {
	if len(args) < 1 {
		fmt.Fprintln(os.Stderr, "usage: gvc replay <file>")
		os.Exit(2)
	}
	data, err := os.ReadFile(args[0])
	if err != nil {
		fmt.Fprintln(os.Stderr, err)
		os.Exit(2)
	}
	var info map[string]interface{}
	json.Unmarshal(data, &info)
	fmt.Printf("obligation: %v\nclause: %v\nexit: %v\nreason: %v\n", info["obligation"], info["clause"], info["exit"], info["reason"])
	rp, ok := info["replay"].(map[string]interface{})
	if !ok {
		fmt.Println("replay: none recorded (no-failing-input-found); solver output:")
		fmt.Println(info["solver_output"])
		return
	}
	src, _ := rp["test_source"].(string)
	if src == "" {
		fmt.Printf("replay: not executable: %v\n", rp["reason"])
		return
	}
	// re-run the recorded test against the current tree
	pkgDir, _ := info["package_dir"].(string)
	if pkgDir == "" {
		fmt.Println("replay: no package directory recorded")
		return
	}
	work, _ := os.MkdirTemp("", "gvc-replay-")
	defer os.RemoveAll(work)
	tf := filepath.Join(work, "replay_test.go")
	os.WriteFile(tf, []byte(src), 0o644)
	ov := map[string]interface{}{"Replace": map[string]string{filepath.Join(pkgDir, "zz_gvc_replay_test.go"): tf}}
	ovData, _ := json.Marshal(ov)
	ovf := filepath.Join(work, "overlay.json")
	os.WriteFile(ovf, ovData, 0o644)
	cmd := exec.Command("go", "test", "-overlay", ovf, "-v", "-vet=off", "-count=1", "-timeout", "120s", "-run", "^TestGvcReplay$", ".")
	cmd.Dir = pkgDir
	cmd.Env = append(os.Environ(), "GOFLAGS=-mod=mod", "GOPROXY=off", "GOSUMDB=off", "GOTOOLCHAIN=local")
	out, _ := cmd.CombinedOutput()
	fmt.Print(string(out))
	if strings.Contains(string(out), "GVC-REPLAY clause=false") || (info["kind"] == "safety" && strings.Contains(string(out), "GVC-REPLAY panic:")) {
		fmt.Println("replay: violation reproduced on the current tree")
		os.Exit(1)
	}
	fmt.Println("replay: not reproduced on the current tree")
}
