package main

// Shapes: every Go value is represented as a flat list of SMT terms ("leaves").
// The shape of a type gives the path, SMT sort and range kind of each leaf.

import (
	"fmt"
	"go/types"
	"math/big"
	"strings"
)

type LeafKind int

const (
	KBool LeafKind = iota
	KInt           // ranged integer (Lo..Hi) or unbounded when Lo == nil
	KRef           // pointer / map / chan / func reference
	KStr
	KFlt
	KArr  // SMT array Int -> Elem leaf
	KOpaq // anything else (uninterpreted sort U)
)

type Leaf struct {
	Path   string
	Sort   string
	Kind   LeafKind
	Lo, Hi *big.Int // for KInt
	Elem   *Leaf    // for KArr
	Len    int64    // for KArr: static length
}

var (
	refLeafProto = Leaf{Sort: "Int", Kind: KRef}
)

func intRange(b *types.Basic) (lo, hi *big.Int) {
	switch b.Kind() {
	case types.Int8:
		return big.NewInt(-128), big.NewInt(127)
	case types.Int16:
		return big.NewInt(-32768), big.NewInt(32767)
	case types.Int32, types.UntypedRune:
		return big.NewInt(-1 << 31), big.NewInt(1<<31 - 1)
	case types.Int, types.Int64, types.UntypedInt:
		return new(big.Int).Neg(pow2(63)), new(big.Int).Sub(pow2(63), big.NewInt(1))
	case types.Uint8:
		return big.NewInt(0), big.NewInt(255)
	case types.Uint16:
		return big.NewInt(0), big.NewInt(65535)
	case types.Uint32:
		return big.NewInt(0), big.NewInt(1<<32 - 1)
	case types.Uint, types.Uint64, types.Uintptr:
		return big.NewInt(0), new(big.Int).Sub(pow2(64), big.NewInt(1))
	}
	return nil, nil
}

var zeroArrSorts = map[string]string{}

type shapeCache struct {
	m map[types.Type][]Leaf
}

var shapes = &shapeCache{m: map[types.Type][]Leaf{}}

// shapeOf returns the leaves of a Go type.
func shapeOf(t types.Type) []Leaf {
	if t == nil {
		return nil
	}
	if s, ok := shapes.m[t]; ok {
		return s
	}
	s := computeShape(t, 0)
	shapes.m[t] = s
	return s
}

func computeShape(t types.Type, depth int) []Leaf {
	if depth > 12 {
		return []Leaf{{Sort: "U", Kind: KOpaq}}
	}
	if key, ok := specialNamed(t); ok {
		switch key {
		case "math/big.Int":
			return []Leaf{{Path: ".v", Sort: "Int", Kind: KInt}}
		case "github.com/holiman/uint256.Int":
			return []Leaf{{Path: ".v", Sort: "Int", Kind: KInt, Lo: big.NewInt(0), Hi: new(big.Int).Sub(pow2(256), big.NewInt(1))}}
		default:
			return []Leaf{{Path: ".v", Sort: "U", Kind: KOpaq}}
		}
	}
	switch u := t.Underlying().(type) {
	case *types.Basic:
		info := u.Info()
		switch {
		case info&types.IsBoolean != 0:
			return []Leaf{{Sort: "Bool", Kind: KBool}}
		case info&types.IsInteger != 0:
			lo, hi := intRange(u)
			return []Leaf{{Sort: "Int", Kind: KInt, Lo: lo, Hi: hi}}
		case info&types.IsString != 0:
			return []Leaf{{Sort: "Str", Kind: KStr}}
		case info&types.IsFloat != 0, info&types.IsComplex != 0:
			return []Leaf{{Sort: "Flt", Kind: KFlt}}
		case u.Kind() == types.UnsafePointer:
			return []Leaf{refLeafProto}
		case u.Kind() == types.UntypedNil:
			return []Leaf{refLeafProto}
		}
		return []Leaf{{Sort: "U", Kind: KOpaq}}
	case *types.Pointer, *types.Map, *types.Chan, *types.Signature:
		return []Leaf{refLeafProto}
	case *types.Slice:
		return []Leaf{
			{Path: ".b", Sort: "Int", Kind: KRef},
			{Path: ".o", Sort: "Int", Kind: KInt},
			{Path: ".l", Sort: "Int", Kind: KInt},
			{Path: ".c", Sort: "Int", Kind: KInt},
		}
	case *types.Interface:
		return []Leaf{
			{Path: ".t", Sort: "Int", Kind: KInt},
			{Path: ".v", Sort: "Int", Kind: KRef},
		}
	case *types.Array:
		el := computeShape(u.Elem(), depth+1)
		var out []Leaf
		for i := range el {
			e := el[i]
			out = append(out, Leaf{Path: "[]" + e.Path, Sort: arrSort(e.Sort), Kind: KArr, Elem: &e, Len: u.Len()})
		}
		return out
	case *types.Struct:
		var out []Leaf
		for i := 0; i < u.NumFields(); i++ {
			f := u.Field(i)
			for _, l := range computeShape(f.Type(), depth+1) {
				l.Path = "." + f.Name() + l.Path
				out = append(out, l)
			}
		}
		return out
	case *types.Tuple:
		var out []Leaf
		for i := 0; i < u.Len(); i++ {
			for _, l := range computeShape(u.At(i).Type(), depth+1) {
				l.Path = fmt.Sprintf("#%d%s", i, l.Path)
				out = append(out, l)
			}
		}
		return out
	case *types.TypeParam:
		return []Leaf{{Sort: "U", Kind: KOpaq}}
	}
	return []Leaf{{Sort: "U", Kind: KOpaq}}
}

// zeroLeaf returns the SMT term of the zero value of a leaf.
func zeroLeaf(l *Leaf) string {
	switch l.Kind {
	case KBool:
		return sFalse
	case KInt, KRef:
		return "0"
	case KStr:
		return "|str!empty|"
	case KFlt:
		return "|flt!zero|"
	case KArr:
		if strings.Contains(l.Sort, " U)") || strings.Contains(l.Sort, " Flt)") || strings.Contains(l.Sort, " Str)") {
			// cvc5 accepts only values in constant arrays: use an unconstrained array of the opaque sort
			name := "|zeroarr!" + strings.NewReplacer("(", "_", ")", "_", " ", "_").Replace(l.Sort) + "|"
			zeroArrSorts[name] = l.Sort
			return name
		}
		return constArr(l.Sort, zeroLeaf(l.Elem))
	}
	return "|u!zero|"
}

// fieldRange returns the [start,end) leaf interval of field i inside struct st.
func fieldRange(st *types.Struct, i int) (int, int) {
	start := 0
	for j := 0; j < i; j++ {
		start += len(shapeOf(st.Field(j).Type()))
	}
	return start, start + len(shapeOf(st.Field(i).Type()))
}

func tupleRange(tp *types.Tuple, i int) (int, int) {
	start := 0
	for j := 0; j < i; j++ {
		start += len(shapeOf(tp.At(j).Type()))
	}
	return start, start + len(shapeOf(tp.At(i).Type()))
}

// specialNamed: library types that are modelled as one abstract leaf.
func specialNamed(t types.Type) (string, bool) {
	if n, ok := types.Unalias(t).(*types.Named); ok && n.Obj().Pkg() != nil {
		key := n.Obj().Pkg().Path() + "." + n.Obj().Name()
		switch key {
		case "math/big.Int", "github.com/holiman/uint256.Int", "math/big.Float", "math/big.Rat",
			"sync.Mutex", "sync.RWMutex", "sync.WaitGroup", "sync.Once", "sync.Pool", "sync.Map", "time.Time", "atomic.Value":
			return key, true
		}
	}
	return "", false
}

// typeKey is the canonical name of a type used in heap array names.
func typeKey(t types.Type) string {
	if key, ok := specialNamed(t); ok {
		return key
	}
	switch tt := t.(type) {
	case *types.Named:
		if _, ok := tt.Underlying().(*types.Struct); ok {
			return shortQual(tt)
		}
		if _, ok := tt.Underlying().(*types.Interface); ok {
			return "iface"
		}
		return typeKey(tt.Underlying())
	case *types.Alias:
		return typeKey(types.Unalias(tt))
	case *types.Pointer, *types.Map, *types.Chan, *types.Signature:
		return "ref"
	case *types.Interface:
		return "iface"
	case *types.Slice:
		return "slice"
	case *types.Array:
		return "[]" + typeKey(tt.Elem())
	case *types.Basic:
		if tt.Kind() == types.Uint8 {
			return "uint8"
		}
		return tt.Name()
	case *types.Struct:
		return "struct{" + structSig(tt) + "}"
	}
	return t.String()
}

func structSig(st *types.Struct) string {
	var parts []string
	for i := 0; i < st.NumFields(); i++ {
		parts = append(parts, st.Field(i).Name()+":"+typeKey(st.Field(i).Type()))
	}
	return strings.Join(parts, ";")
}

func shortQual(n *types.Named) string {
	obj := n.Obj()
	name := obj.Name()
	if ta := n.TypeArgs(); ta != nil && ta.Len() > 0 {
		var as []string
		for i := 0; i < ta.Len(); i++ {
			as = append(as, typeKey(ta.At(i)))
		}
		name += "[" + strings.Join(as, ",") + "]"
	}
	if obj.Pkg() == nil {
		return name
	}
	p := obj.Pkg().Path()
	p = strings.TrimPrefix(p, "github.com/dominant-strategies/go-quai/")
	return p + "." + name
}

// structTypeOf returns the named-or-anonymous struct key and struct for a type
// whose underlying type is a struct.
func structKey(t types.Type) string {
	t = types.Unalias(t)
	if n, ok := t.(*types.Named); ok {
		return shortQual(n)
	}
	return typeKey(t)
}

func deref(t types.Type) types.Type {
	if p, ok := t.Underlying().(*types.Pointer); ok {
		return p.Elem()
	}
	return t
}

func isStruct(t types.Type) bool {
	_, ok := t.Underlying().(*types.Struct)
	return ok
}

func isArray(t types.Type) bool {
	_, ok := t.Underlying().(*types.Array)
	return ok
}
