package main

// Ctx: one verification context = declarations + assertions accumulated while
// symbolically executing one function under contract, plus the obligations
// generated on the way.

import (
	"fmt"
	"go/types"
	"regexp"
	"sort"
	"strings"
	"sync"

	"golang.org/x/tools/go/ssa"
)

type Obl struct {
	Name     string // stable obligation name (function/clause/exit)
	Kind     string // ensures | requires | invariant-entry | invariant-preserve | safety | cover | canary | lemma | assert
	Cond     string // path condition (reachability) under which Goal must hold
	Goal     string
	NAsserts int // prefix of ctx.asserts visible to this obligation
	NDecls   int
	Func     string
	Clause   string // source text of the clause
	Exit     string // exit fingerprint
	Pos      string
	ExpectSat bool  // cover / canary: "sat" is the good answer
	Extra    []string // extra assertions local to this obligation
	ctx      *Ctx
	// filled by the runner
	Result  string
	Solver  string
	TimeS   float64
	Model   map[string]string
	RawOut  string
	ModelVars []string // names whose model values are wanted (inputs)
	Props     []string
	File      string
	Size      int
	Agree     []string
	noSlice   bool
	sliced    bool
	hops      int
	Pre       *Obl // cover queries: the same site before the callee's postconditions were assumed
}

type Ctx struct {
	eng      *Engine
	// replay bookkeeping (function under verification, its entry state and parameter values)
	fn       *ssa.Function
	contract *Contract
	entry    State
	selDepth int
	fnParams []Val
	decls    []string
	declSet  map[string]string
	defs     map[string]string // bound constant -> defining term
	asserts  []string
	heapN    int
	memSorts map[string]string
	nfresh   int
	obls     []*Obl
	notes    map[string]int
	strs     map[string]string // string literal -> const name
	strList  []string
	funcName string
	inputs   []string // names of input constants (for models)
	typeIDs  map[string]int
	specErrs []string
	stats    ctxStats
	usedContracts map[*Contract]bool
	lazyArr  map[string]func(idx string) string
	lazyDone map[string]bool
	sliceMu   sync.Mutex
	privUsed  bool
	reachInfo map[string]string
	noBind    int // >0 while translating the body of a quantifier (terms may mention bound variables)
	inlinedBlocks int
	aSyms     [][]string
	aDef      []string
	symIndex  map[string][]int
	symIndexN int
	globalsSeen map[string]globalCell // "pkg.name" -> cell
	nonlinear bool
	mulMemo  map[string]string
	quant    bool // emit quantified axioms for copy/append (default: pointwise on demand)
}

func newCtx(eng *Engine, name string) *Ctx {
	c := &Ctx{eng: eng, declSet: map[string]string{}, defs: map[string]string{}, memSorts: map[string]string{},
		notes: map[string]int{}, strs: map[string]string{}, funcName: name, usedContracts: map[*Contract]bool{}, lazyArr: map[string]func(string) string{}, lazyDone: map[string]bool{}, mulMemo: map[string]string{}, globalsSeen: map[string]globalCell{}, reachInfo: map[string]string{}}
	return c
}

func (c *Ctx) note(s string) { c.notes[s]++ }

func (c *Ctx) declare(name, sort_ string) string {
	q := smtName(name)
	if _, ok := c.declSet[q]; ok {
		return q
	}
	c.declSet[q] = sort_
	c.decls = append(c.decls, fmt.Sprintf("(declare-fun %s () %s)", q, sort_))
	// declarations are interleaved with asserts by index: keep a marker
	c.asserts = append(c.asserts, "")
	return q
}

func (c *Ctx) declareFun(name string, args []string, ret string) string {
	q := smtName(name)
	if _, ok := c.declSet[q]; ok {
		return q
	}
	c.declSet[q] = "fun"
	c.decls = append(c.decls, fmt.Sprintf("(declare-fun %s (%s) %s)", q, strings.Join(args, " "), ret))
	c.asserts = append(c.asserts, "")
	return q
}

func (c *Ctx) fresh(prefix, sort_ string) string {
	c.nfresh++
	return c.declare(fmt.Sprintf("%s!%d", prefix, c.nfresh), sort_)
}

func isAtomic(t string) bool {
	return !strings.ContainsAny(t, " (")  || (strings.HasPrefix(t, "(- ") && !strings.ContainsAny(t[3:], " ("))
}

// bind names a term by a fresh constant (definition by equality) unless it is
// already atomic.
func (c *Ctx) bind(prefix, sort_, term string) string {
	if isAtomic(term) || len(term) < 24 || c.noBind > 0 {
		return term
	}
	n := c.fresh(prefix, sort_)
	c.asserts = append(c.asserts, eq(n, term))
	c.defs[n] = term
	return n
}

// assume adds a fact that holds whenever cond does.
func (c *Ctx) assume(cond, fact string) {
	if fact == sTrue || cond == sFalse {
		return
	}
	c.asserts = append(c.asserts, implies(cond, fact))
}

func (c *Ctx) addObl(o *Obl) *Obl {
	o.NAsserts = len(c.asserts)
	o.NDecls = len(c.decls)
	o.ctx = c
	if o.Func == "" {
		o.Func = c.funcName
	}
	c.obls = append(c.obls, o)
	return o
}

func (c *Ctx) strConst(s string) string {
	if n, ok := c.strs[s]; ok {
		return n
	}
	if s == "" {
		return "|str!empty|"
	}
	n := c.declare(fmt.Sprintf("str!%d", len(c.strList)+1), "Str")
	c.strs[s] = n
	c.asserts = append(c.asserts, neq(n, "|str!empty|"))
	// distinct from all earlier literals; known length
	for _, o := range c.strList {
		c.asserts = append(c.asserts, neq(n, c.strs[o]))
	}
	c.strList = append(c.strList, s)
	c.asserts = append(c.asserts, eq(app(c.strlenFn(), n), num(int64(len(s)))))
	return n
}

func (c *Ctx) strlenFn() string { return "strlen" }

func (c *Ctx) typeID(key string) int {
	return c.eng.typeID(key)
}

var symRe = regexp.MustCompile(`\|[^|]*\|`)

func symbolsOf(s string) []string {
	return symRe.FindAllString(s, -1)
}

// assertSyms caches the symbols of each assertion; defSym[i] is the defined constant when
// assertion i has the shape (= |x| term).
func (c *Ctx) prepareSlicing() {
	if c.aSyms != nil && len(c.aSyms) == len(c.asserts) {
		return
	}
	start := len(c.aSyms)
	for i := start; i < len(c.asserts); i++ {
		a := c.asserts[i]
		var syms []string
		def := ""
		if a != "" {
			syms = symbolsOf(a)
			if strings.HasPrefix(a, "(= |") {
				end := strings.Index(a[3:], "| ")
				if end > 0 {
					def = a[3 : 3+end+1]
				}
			}
		}
		c.aSyms = append(c.aSyms, syms)
		c.aDef = append(c.aDef, def)
	}
}

// buildSymIndex: symbol -> assertions mentioning it.
func (c *Ctx) buildSymIndex() {
	if c.symIndex != nil && c.symIndexN >= len(c.asserts) {
		return
	}
	c.symIndex = map[string][]int{}
	for i, syms := range c.aSyms {
		seen := map[string]bool{}
		for _, s := range syms {
			if !seen[s] {
				seen[s] = true
				c.symIndex[s] = append(c.symIndex[s], i)
			}
		}
	}
	c.symIndexN = len(c.asserts)
}

// slice returns the set of assertion indices (below n) relevant to the given seed text.
// Dropping assertions only weakens the hypotheses, so an `unsat` answer on the slice is sound;
// `sat` answers on a slice are re-checked on the full query.
func isReachSym(s string) bool {
	return strings.HasPrefix(s, "|e!") || strings.HasPrefix(s, "|r!") || strings.HasPrefix(s, "|dv")
}

// slice: hops <= 0 means the full relevance closure; otherwise assertions within `hops` steps of
// the seeds in the symbol-sharing graph, where path-condition constants do not propagate relevance.
func (c *Ctx) slice(n int, seeds []string, hops int) []bool {
	c.sliceMu.Lock()
	c.prepareSlicing()
	c.buildSymIndex()
	c.sliceMu.Unlock()
	keep := make([]bool, n)
	S := map[string]int{}
	type item struct {
		s string
		d int
	}
	var work []item
	for _, sd := range seeds {
		for _, s := range symbolsOf(sd) {
			if _, ok := S[s]; !ok {
				S[s] = 0
				work = append(work, item{s, 0})
			}
		}
	}
	for len(work) > 0 {
		it := work[0]
		work = work[1:]
		if hops > 0 && it.d >= hops {
			continue
		}
		if hops > 0 && it.d > 0 && isReachSym(it.s) {
			// include the definition of a path condition but do not expand through it
			for _, i := range c.symIndex[it.s] {
				if i < n && c.aDef[i] == it.s {
					keep[i] = true
				}
			}
			continue
		}
		for _, i := range c.symIndex[it.s] {
			if i >= n || keep[i] {
				continue
			}
			// a definition of another constant is pulled in only when that constant is relevant
			if d := c.aDef[i]; d != "" && d != it.s {
				if _, rel := S[d]; !rel {
					continue
				}
			}
			keep[i] = true
			for _, t := range c.aSyms[i] {
				if _, ok := S[t]; !ok {
					S[t] = it.d + 1
					work = append(work, item{t, it.d + 1})
				}
			}
		}
	}
	return keep
}

// script renders the SMT-LIB query of an obligation.
func (o *Obl) script(produceModels bool) string {
	return o.scriptOpt(produceModels, false)
}

func (o *Obl) scriptOpt(produceModels bool, sliced bool) string {
	c := o.ctx
	var keepA []bool
	if sliced {
		seeds := append([]string{o.Cond, o.Goal}, o.Extra...)
		keepA = c.slice(o.NAsserts, seeds, o.hops)
	}
	var b strings.Builder
	if produceModels {
		b.WriteString("(set-option :produce-models true)\n")
	}
	b.WriteString("(set-logic ALL)\n")
	b.WriteString("(declare-sort Str 0)\n(declare-sort Flt 0)\n(declare-sort U 0)\n")
	b.WriteString("(declare-fun |flt!zero| () Flt)\n(declare-fun |u!zero| () U)\n(declare-fun |str!empty| () Str)\n")
	b.WriteString("(declare-fun strlen (Str) Int)\n(assert (= (strlen |str!empty|) 0))\n")
	// opaque zero arrays referenced by the script
	zdecl := map[string]bool{}
	for i := 0; i < o.NAsserts && i < len(c.asserts); i++ {
		a := c.asserts[i]
		for idx := strings.Index(a, "|zeroarr!"); idx >= 0; {
			end := strings.Index(a[idx+1:], "|")
			if end < 0 {
				break
			}
			name := a[idx : idx+end+2]
			if !zdecl[name] {
				zdecl[name] = true
				b.WriteString("(declare-fun " + name + " () " + zeroArrSorts[name] + ")\n")
			}
			nx := strings.Index(a[idx+end+2:], "|zeroarr!")
			if nx < 0 {
				break
			}
			idx = idx + end + 2 + nx
		}
	}
	di := 0
	for i := 0; i < o.NAsserts && i < len(c.asserts); i++ {
		a := c.asserts[i]
		if a == "" {
			// declaration marker
			b.WriteString(c.decls[di])
			b.WriteByte('\n')
			di++
			continue
		}
		if o.ExpectSat && strings.Contains(a, "(forall ") {
			continue // cover/canary queries check the quantifier-free part of the assumptions
		}
		if keepA != nil && !keepA[i] {
			continue
		}
		b.WriteString("(assert ")
		b.WriteString(a)
		b.WriteString(")\n")
	}
	for _, e := range o.Extra {
		b.WriteString("(assert " + e + ")\n")
	}
	if o.Cond != sTrue {
		b.WriteString("(assert " + o.Cond + ")\n")
	}
	if o.ExpectSat {
		if o.Goal != sTrue {
			b.WriteString("(assert " + o.Goal + ")\n")
		}
	} else {
		b.WriteString("(assert " + not(o.Goal) + ")\n")
	}
	b.WriteString("(check-sat)\n")
	if produceModels {
		vars := o.ModelVars
		if len(vars) > 0 {
			sort.Strings(vars)
			b.WriteString("(get-value (" + strings.Join(vars, " ") + "))\n")
		}
	}
	return b.String()
}

// strLit returns the literal text of a string constant term.
func (c *Ctx) strLit(term string) (string, bool) {
	if term == "|str!empty|" {
		return "", true
	}
	for lit, name := range c.strs {
		if name == term {
			return lit, true
		}
	}
	return "", false
}

type globalCell struct {
	ref string
	typ types.Type
}

func globalKey(g *ssa.Global) string {
	if g.Pkg != nil {
		return "g|" + g.Pkg.Pkg.Path() + "." + g.Name()
	}
	return "g|" + g.Name()
}

func (c *Ctx) seeGlobal(g *ssa.Global) {
	k := globalKey(g)
	if _, ok := c.globalsSeen[k]; !ok {
		c.globalsSeen[k] = globalCell{ref: num(c.eng.globalRef(g)), typ: deref(g.Type())}
	}
}

// restoreGlobals: after an array-level havoc, package-level variables that the callee does
// not assign keep their value (assumption: package-level variables are written only by
// direct assignments, not through escaped pointers to them).
func (c *Ctx) restoreGlobals(old, nh *Heap, ms *ModSet) *Heap {
	var keys []string
	for k := range c.globalsSeen {
		keys = append(keys, k)
	}
	sort.Strings(keys)
	top := ms != nil && ms.top
	for _, k := range keys {
		cell := c.globalsSeen[k]
		// variables covered by the globals-immutable scan (those that global facts speak
		// about) are never assigned outside their package initialiser: keep them across any call
		immutable := c.eng.factGlobalKeys()[k]
		if !immutable {
			if top || (ms != nil && ms.has(k)) {
				continue
			}
		}
		l := locOfRef(cell.ref, cell.typ)
		for _, acc := range l.accs {
			if !top && ms != nil && !ms.has(acc.mem) {
				continue // array not havocked
			}
			nh = c.storeAcc(nh, acc, c.loadAcc(old, acc))
		}
		if immutable {
			// the *big.Int it points to is never mutated in place (same scan)
			if pt, ok := cell.typ.Underlying().(*types.Pointer); ok {
				if key, sp := specialNamed(pt.Elem()); sp && key == "math/big.Int" {
					if top || ms == nil || ms.has(bigMem) {
						p := c.loadAcc(old, l.accs[0])
						arrOld := c.heapGet(old, bigMem, "(Array Int Int)")
						arrNew := c.heapGet(nh, bigMem, "(Array Int Int)")
						nh = c.heapUpd(nh, bigMem, "(Array Int Int)", sto(arrNew, p, c.sel(arrOld, p)))
					}
				}
			}
		}
	}
	return nh
}


