package main

// Symbolic execution of go/ssa functions into passive SMT form.

import (
	"fmt"
	"os"
	"go/constant"
	"go/token"
	"go/types"
	"math/big"
	"sort"
	"strings"

	"golang.org/x/tools/go/ssa"
)

type Exit struct {
	cond    string
	results Val
	st      State
	ret     *ssa.Return
	block   *ssa.BasicBlock
}

type PanicSite struct {
	// the assertion / declaration prefix visible when the guard was reached: the obligation must not
	// see the guard's own continuation assumption (reach => ok), nor anything assumed after it
	nAsserts int
	nDecls   int
	cond  string
	what  string
	pos   token.Pos
	instr ssa.Instruction
}

type deferRec struct {
	instr *ssa.Defer
	args  []Val
	fnval Val
	flag  string // Bool term: registered on this path
}

type frame struct {
	c       *Ctx
	fn      *ssa.Function
	depth   int
	top     bool
	vals    map[ssa.Value]Val
	locs    map[ssa.Value]*Loc
	backN   map[ssa.Value]int64 // static backing-array size of slice values
	closure map[ssa.Value]*ssa.MakeClosure
	reach   map[*ssa.BasicBlock]string
	in      map[*ssa.BasicBlock]State
	out     map[*ssa.BasicBlock]State
	edge    map[[2]int]string
	exits   []*Exit
	panics  []*PanicSite
	defers  []*deferRec
	stack   []*ssa.Function // inline stack
	safety  bool
	contract *Contract
	params  []Val
	entry   State
	loopHdr map[*ssa.BasicBlock]*loopInfo
	curBlock *ssa.BasicBlock
	phiEnv  map[*ssa.BasicBlock]map[string]Val
	bindings []ssa.Value
	specMode bool
	escapeAt map[ssa.Instruction][]string // escape point -> references that stop being private there
	privRefs []privRef
	privAllocs []privAlloc
	s2a      map[ssa.Value]Val
	matz     []matRec
	letCache map[string]sval
}

type loopInfo struct {
	header *ssa.BasicBlock
	body   map[*ssa.BasicBlock]bool
	latches []*ssa.BasicBlock
	ordinal int
}

func (c *Ctx) newFrame(fn *ssa.Function, depth int, stack []*ssa.Function) *frame {
	return &frame{c: c, fn: fn, depth: depth, vals: map[ssa.Value]Val{}, locs: map[ssa.Value]*Loc{},
		backN: map[ssa.Value]int64{}, closure: map[ssa.Value]*ssa.MakeClosure{}, s2a: map[ssa.Value]Val{},
		reach: map[*ssa.BasicBlock]string{}, in: map[*ssa.BasicBlock]State{}, out: map[*ssa.BasicBlock]State{},
		edge: map[[2]int]string{}, stack: append(append([]*ssa.Function{}, stack...), fn),
		phiEnv: map[*ssa.BasicBlock]map[string]Val{}}
}

// freshVal creates unconstrained leaves of type t, with range assumptions under cond.
func (c *Ctx) freshVal(prefix string, t types.Type, cond string, alloc string) Val {
	sh := shapeOf(t)
	v := make(Val, len(sh))
	for i := range sh {
		v[i] = c.fresh(prefix+sh[i].Path, sh[i].Sort)
	}
	c.assumeRanges(v, t, cond, alloc)
	return v
}

// assumeRanges asserts the type ranges of the leaves of v.
func (c *Ctx) assumeRanges(v Val, t types.Type, cond string, alloc string) {
	sh := shapeOf(t)
	for i := range sh {
		if i >= len(v) {
			break
		}
		c.assumeLeafRange(v[i], &sh[i], cond, alloc)
	}
	c.assumeStructural(v, t, cond)
}

func (c *Ctx) assumeStructural(v Val, t types.Type, cond string) {
	switch u := t.Underlying().(type) {
	case *types.Slice:
		c.assume(cond, and(le("0", v[1]), le("0", v[2]), le(v[2], v[3]), implies(eq(v[0], "0"), eq(v[3], "0")), le(v[3], "281474976710656")))
	case *types.Interface:
		c.assume(cond, and(le("0", v[0]), implies(eq(v[0], "0"), eq(v[1], "0"))))
		c.assumeSealed(v, t, cond)
	case *types.Struct:
		if _, special := specialNamed(t); special {
			return
		}
		for i := 0; i < u.NumFields(); i++ {
			a, b := fieldRange(u, i)
			if b <= len(v) {
				c.assumeStructural(v[a:b], u.Field(i).Type(), cond)
			}
		}
	case *types.Tuple:
		for i := 0; i < u.Len(); i++ {
			a, b := tupleRange(u, i)
			if b <= len(v) {
				c.assumeStructural(v[a:b], u.At(i).Type(), cond)
			}
		}
	}
}

func (c *Ctx) assumeLeafRange(term string, l *Leaf, cond string, alloc string) {
	if isLiteral(term) {
		return
	}
	switch l.Kind {
	case KInt:
		if l.Lo != nil {
			c.assume(cond, between(numBig(l.Lo), term, numBig(l.Hi)))
		}
	case KRef:
		if alloc != "" {
			c.assume(cond, lt(term, alloc))
		}
	case KStr:
		c.assume(cond, le("0", app("strlen", term)))
	}
}

func isLiteral(t string) bool {
	if t == sTrue || t == sFalse {
		return true
	}
	_, ok := litInt(t)
	return ok
}

// ---------------------------------------------------------------------------

func (f *frame) get(v ssa.Value) Val {
	if x, ok := f.vals[v]; ok {
		return x
	}
	c := f.c
	switch vv := v.(type) {
	case *ssa.Const:
		x := c.constVal(vv)
		return x
	case *ssa.Global:
		c.seeGlobal(vv)
		return Val{num(c.eng.globalRef(vv))}
	case *ssa.Function:
		return Val{num(c.eng.funcRef(vv))}
	case *ssa.Builtin:
		return Val{"0"}
	}
	// unknown (e.g. value from an unprocessed block): fresh
	c.note("unbound-value")
	x := c.freshVal("unb", v.Type(), sTrue, "")
	f.vals[v] = x
	return x
}

func (c *Ctx) zeroVal(t types.Type) Val {
	sh := shapeOf(t)
	v := make(Val, len(sh))
	for i := range sh {
		v[i] = zeroLeaf(&sh[i])
	}
	return v
}

func (c *Ctx) constVal(k *ssa.Const) Val {
	t := k.Type()
	if k.Value == nil {
		return c.zeroVal(t)
	}
	switch u := t.Underlying().(type) {
	case *types.Basic:
		info := u.Info()
		switch {
		case info&types.IsBoolean != 0:
			if constant.BoolVal(k.Value) {
				return Val{sTrue}
			}
			return Val{sFalse}
		case info&types.IsInteger != 0:
			if bi, ok := constant.Val(constant.ToInt(k.Value)).(*big.Int); ok {
				return Val{numBig(bi)}
			}
			if i64, ok := constant.Int64Val(constant.ToInt(k.Value)); ok {
				return Val{num(i64)}
			}
			if u64, ok := constant.Uint64Val(constant.ToInt(k.Value)); ok {
				return Val{new(big.Int).SetUint64(u64).String()}
			}
		case info&types.IsString != 0:
			return Val{c.strConst(constant.StringVal(k.Value))}
		case info&types.IsFloat != 0, info&types.IsComplex != 0:
			return Val{c.declare("flt!"+sanitize(k.Value.ExactString()), "Flt")}
		}
	}
	return c.zeroVal(t)
}

func sanitize(s string) string {
	var b strings.Builder
	for _, r := range s {
		if r == '|' || r == '\\' || r == ' ' {
			b.WriteByte('_')
		} else {
			b.WriteRune(r)
		}
	}
	return b.String()
}

// ---------------------------------------------------------------------------
// loop structure

func (f *frame) findLoops() bool {
	f.loopHdr = map[*ssa.BasicBlock]*loopInfo{}
	fn := f.fn
	for _, b := range fn.Blocks {
		for _, s := range b.Succs {
			if s.Dominates(b) {
				li := f.loopHdr[s]
				if li == nil {
					li = &loopInfo{header: s, body: map[*ssa.BasicBlock]bool{s: true}}
					f.loopHdr[s] = li
				}
				li.latches = append(li.latches, b)
				// natural loop body
				stack := []*ssa.BasicBlock{b}
				for len(stack) > 0 {
					x := stack[len(stack)-1]
					stack = stack[:len(stack)-1]
					if li.body[x] {
						continue
					}
					li.body[x] = true
					stack = append(stack, x.Preds...)
				}
			}
		}
	}
	// loop ordinals by header block index (source order)
	var hs []*ssa.BasicBlock
	for h := range f.loopHdr {
		hs = append(hs, h)
	}
	lpos := map[*ssa.BasicBlock]int{}
	for _, h := range hs {
		best := int(^uint(0) >> 1)
		for b := range f.loopHdr[h].body {
			if p := posOfBlock(b); p < best && p < 1000000*1000 {
				best = p
			}
		}
		lpos[h] = best
	}
	sort.Slice(hs, func(i, j int) bool {
		if lpos[hs[i]] != lpos[hs[j]] {
			return lpos[hs[i]] < lpos[hs[j]]
		}
		// same first position: the enclosing (larger) loop comes first
		if len(f.loopHdr[hs[i]].body) != len(f.loopHdr[hs[j]].body) {
			return len(f.loopHdr[hs[i]].body) > len(f.loopHdr[hs[j]].body)
		}
		return hs[i].Index < hs[j].Index
	})
	for i, h := range hs {
		f.loopHdr[h].ordinal = i + 1
	}
	return true
}

func posOfBlock(b *ssa.BasicBlock) int {
	best := int(^uint(0) >> 1)
	for _, in := range b.Instrs {
		if _, isPhi := in.(*ssa.Phi); isPhi {
			continue // a phi carries the position of the variable's declaration, which may precede the loop
		}
		if p := in.Pos(); p.IsValid() && int(p) < best {
			best = int(p)
		}
	}
	if best == int(^uint(0)>>1) {
		return 1000000*1000 + b.Index
	}
	return best
}

func (f *frame) isBackEdge(from, to *ssa.BasicBlock) bool {
	return to.Dominates(from)
}

// topological order of blocks ignoring back edges.
func (f *frame) order() []*ssa.BasicBlock {
	fn := f.fn
	indeg := map[*ssa.BasicBlock]int{}
	for _, b := range fn.Blocks {
		for _, p := range b.Preds {
			if !f.isBackEdge(p, b) {
				indeg[b]++
			}
		}
	}
	var out []*ssa.BasicBlock
	var ready []*ssa.BasicBlock
	for _, b := range fn.Blocks {
		if indeg[b] == 0 {
			ready = append(ready, b)
		}
	}
	for len(ready) > 0 {
		sort.Slice(ready, func(i, j int) bool { return ready[i].Index < ready[j].Index })
		b := ready[0]
		ready = ready[1:]
		out = append(out, b)
		for _, s := range b.Succs {
			if f.isBackEdge(b, s) {
				continue
			}
			indeg[s]--
			if indeg[s] == 0 {
				ready = append(ready, s)
			}
		}
	}
	return out
}

// ---------------------------------------------------------------------------

// run executes the function body from the given entry state. pathCond is the
// reachability of the entry.
func (f *frame) run(args []Val, st State, pathCond string) {
	c := f.c
	fn := f.fn
	f.params = args
	f.entry = st
	for i, p := range fn.Params {
		if i < len(args) {
			f.vals[p] = args[i]
		}
	}
	if len(fn.Blocks) == 0 {
		return
	}
	f.findLoops()
	ord := f.order()
	if len(ord) != len(fn.Blocks) {
		c.note("irreducible-cfg:" + fn.String())
	}
	for _, b := range ord {
		f.curBlock = b
		var reach string
		var stIn State
		if b.Index == 0 {
			reach = pathCond
			stIn = st
		} else {
			var conds []string
			var heaps []*Heap
			var allocs []allocPtr
			var fpreds []*ssa.BasicBlock
			for _, p := range b.Preds {
				if f.isBackEdge(p, b) {
					continue
				}
				ec, ok := f.edge[[2]int{p.Index, b.Index}]
				if !ok || ec == sFalse {
					continue
				}
				conds = append(conds, ec)
				heaps = append(heaps, f.out[p].heap)
				allocs = append(allocs, f.out[p].alloc)
				fpreds = append(fpreds, p)
			}
			if len(conds) == 0 {
				f.reach[b] = sFalse
				f.edgeOut(b, sFalse)
				// still bind instruction values lazily (unreachable)
				continue
			}
			reach = c.bind("r", "Bool", or(conds...))
			stIn = State{heap: c.heapMerge(conds, heaps), alloc: c.mergeAlloc(conds, allocs, reach)}
			// phis
			for _, in := range b.Instrs {
				phi, ok := in.(*ssa.Phi)
				if !ok {
					break
				}
				var vs []Val
				for _, p := range fpreds {
					idx := predIndex(b, p)
					vs = append(vs, f.get(phi.Edges[idx]))
				}
				f.vals[phi] = c.mergeVals(conds, vs, phi.Type())
				// keep static slice info if all agree
				f.mergeBackN(phi, b, fpreds)
			}
		}
		f.reach[b] = reach
		if f.top && c.reachInfo != nil {
			pos := ""
			for _, in := range b.Instrs {
				if in.Pos().IsValid() {
					pos = c.eng.posString(in.Pos())
					break
				}
			}
			c.reachInfo[reach] = fmt.Sprintf("b%d %s %s", b.Index, b.Comment, pos)
		}
		if li := f.loopHdr[b]; li != nil {
			stIn = f.enterLoop(li, reach, stIn)
		}
		f.in[b] = stIn
		cur := stIn
		terminated := false
		for _, in := range b.Instrs {
			if _, ok := in.(*ssa.Phi); ok {
				continue
			}
			if vs, ok := f.escapeAt[in]; ok {
				for _, r := range vs {
					pv := c.heapGet(cur.heap, privMem, privSort)
					cur.heap = c.heapUpd(cur.heap, privMem, privSort, sto(pv, r, sFalse))
				}
			}
			var stop bool
			cur, stop = f.step(in, cur, reach)
			if stop {
				terminated = true
				break
			}
		}
		f.out[b] = cur
		if terminated {
			continue
		}
	}
}

func predIndex(b, p *ssa.BasicBlock) int {
	for i, x := range b.Preds {
		if x == p {
			return i
		}
	}
	return 0
}

func (f *frame) mergeBackN(phi *ssa.Phi, b *ssa.BasicBlock, preds []*ssa.BasicBlock) {
	var n int64 = -1
	for _, p := range preds {
		e := phi.Edges[predIndex(b, p)]
		m, ok := f.backN[e]
		if !ok {
			return
		}
		if n == -1 {
			n = m
		} else if n != m {
			return
		}
	}
	if n >= 0 {
		f.backN[phi] = n
	}
}

func (c *Ctx) mergeAlloc(conds []string, as []allocPtr, reach string) allocPtr {
	same := true
	max := as[0]
	for _, a := range as[1:] {
		if a.base != as[0].base {
			same = false
		}
		if a.off > max.off {
			max = a
		}
	}
	if same {
		return max
	}
	nb := c.fresh("alloc", "Int")
	for _, a := range as {
		c.assume(reach, ge(nb, a.term()))
	}
	return allocPtr{base: nb}
}

func (c *Ctx) mergeVals(conds []string, vs []Val, t types.Type) Val {
	if len(vs) == 1 {
		return vs[0]
	}
	sh := shapeOf(t)
	out := make(Val, len(sh))
	for i := range sh {
		term := vs[len(vs)-1][i]
		for j := len(vs) - 2; j >= 0; j-- {
			term = ite(conds[j], vs[j][i], term)
		}
		out[i] = c.bind("phi", sh[i].Sort, term)
	}
	return out
}

// edgeOut records the outgoing edge conditions of block b.
func (f *frame) edgeOut(b *ssa.BasicBlock, reach string) {
	for _, s := range b.Succs {
		f.edge[[2]int{b.Index, s.Index}] = reach
	}
}

// ---------------------------------------------------------------------------
// loops

// loopWrites: the set of memory arrays that the body may write (nil = all).
func (f *frame) loopKeep(li *loopInfo) func(string) bool {
	ms := f.loopMods(li)
	if ms.top {
		return nil
	}
	return func(name string) bool { return !ms.has(name) }
}

func (f *frame) loopMods(li *loopInfo) *ModSet {
	c := f.c
	ms := newModSet()
	for b := range li.body {
		for _, in := range b.Instrs {
			c.eng.instrMods(in, ms)
			if ms.top {
				if os.Getenv("GVC_DEBUG") == "loop" {
					fmt.Fprintf(os.Stderr, "loop %d of %s: TOP because of %s at %s\n", li.ordinal, f.fn.Name(), in.String(), c.eng.posString(in.Pos()))
				}
				return ms
			}
		}
	}
	if os.Getenv("GVC_DEBUG") == "loop" {
		fmt.Fprintf(os.Stderr, "loop %d of %s modifies: %v\n", li.ordinal, f.fn.Name(), ms.list())
	}
	return ms
}

func (f *frame) enterLoop(li *loopInfo, reach string, st State) State {
	c := f.c
	b := li.header
	// invariants
	var invs []Clause
	if f.contract != nil && f.top {
		invs = f.contract.LoopInv[li.ordinal]
	}
	// 1. establish on entry: phi values currently hold the merged entry values
	env := f.specEnvAt(b, st)
	for _, inv := range invs {
		g := c.evalBool(env, inv.Expr)
		c.addObl(&Obl{Name: fmt.Sprintf("%s/loop%d/inv#%d/entry", f.fn.String(), li.ordinal, inv.N), Kind: "invariant-entry",
			Cond: reach, Goal: g, Clause: inv.Text})
	}
	// 2. havoc loop-carried phis and modified memory
	for _, in := range b.Instrs {
		phi, ok := in.(*ssa.Phi)
		if !ok {
			break
		}
		nv := c.freshVal("lp_"+phi.Comment, phi.Type(), reach, "")
		f.vals[phi] = nv
	}
	lms := f.loopMods(li)
	var keep func(string) bool
	if !lms.top {
		keep = func(name string) bool { return !lms.has(name) }
	}
	nh := c.heapHavoc(st.heap, "loop", keep)
	nh = c.restoreGlobals(st.heap, nh, lms)
	for _, pr := range f.privRefs {
		for _, e := range pr.escapes {
			if li.body[e.Block()] {
				pv := c.heapGet(nh, privMem, privSort)
				nh = c.heapUpd(nh, privMem, privSort, sto(pv, pr.ref, sFalse))
				break
			}
		}
	}
	na := c.fresh("alloc", "Int")
	c.assume(reach, ge(na, st.alloc.term()))
	nst := State{heap: nh, alloc: allocPtr{base: na}}
	// pointer ranges for havocked phis
	for _, in := range b.Instrs {
		phi, ok := in.(*ssa.Phi)
		if !ok {
			break
		}
		c.assumeRanges(f.vals[phi], phi.Type(), reach, na)
		// the hidden index of a `for ... range slice` loop starts at -1 and is only ever incremented
		// by the loop itself (it is not assignable from source): an implicit invariant of every range loop
		if phi.Comment == "rangeindex" && len(f.vals[phi]) == 1 {
			c.assume(reach, ge(f.vals[phi][0], num(-1)))
			// ... and it stays below the length taken before the loop (the loop increments it only
			// after comparing index+1 with that length); lengths are at most 2^48 (maxAlloc)
			c.assume(reach, le(f.vals[phi][0], "281474976710656"))
		}
	}
	// 3. assume invariants
	env2 := f.specEnvAt(b, nst)
	for _, inv := range invs {
		g := c.evalBool(env2, inv.Expr)
		c.assume(reach, g)
	}
	if len(invs) == 0 && f.top {
		c.note(fmt.Sprintf("loop-without-invariant:%s#%d", f.fn.Name(), li.ordinal))
	}
	return nst
}

// backEdge is called when control reaches a latch -> header edge.
func (f *frame) backEdge(from, hdr *ssa.BasicBlock, cond string, st State) {
	c := f.c
	li := f.loopHdr[hdr]
	if li == nil || f.contract == nil || !f.top {
		return
	}
	invs := f.contract.LoopInv[li.ordinal]
	if len(invs) == 0 {
		return
	}
	// evaluate invariants with phi := edge operand
	saved := map[ssa.Value]Val{}
	idx := predIndex(hdr, from)
	for _, in := range hdr.Instrs {
		phi, ok := in.(*ssa.Phi)
		if !ok {
			break
		}
		saved[phi] = f.vals[phi]
	}
	newv := map[ssa.Value]Val{}
	for _, in := range hdr.Instrs {
		phi, ok := in.(*ssa.Phi)
		if !ok {
			break
		}
		newv[phi] = f.get(phi.Edges[idx])
	}
	for k, v := range newv {
		f.vals[k] = v
	}
	env := f.specEnvAt(hdr, st)
	for _, inv := range invs {
		g := c.evalBool(env, inv.Expr)
		c.addObl(&Obl{Name: fmt.Sprintf("%s/loop%d/inv#%d/preserve@b%d", f.fn.String(), li.ordinal, inv.N, from.Index), Kind: "invariant-preserve",
			Cond: cond, Goal: g, Clause: inv.Text})
	}
	for k, v := range saved {
		f.vals[k] = v
	}
}

// ---------------------------------------------------------------------------
// instruction step

func (f *frame) panicSite(cond, what string, in ssa.Instruction) {
	f.panics = append(f.panics, &PanicSite{nAsserts: len(f.c.asserts), nDecls: len(f.c.decls), cond: cond, what: what, pos: in.Pos(), instr: in})
}

// guard registers a potential runtime panic: ok must hold for execution to continue.
// Returns the (possibly strengthened) reachability for the rest of the block.
func (f *frame) guard(reach, ok, what string, in ssa.Instruction) {
	if ok == sTrue || f.specMode {
		return
	}
	if f.safety {
		f.panicSite(and(reach, not(ok)), what, in)
	}
	// execution continues only if ok
	f.c.assume(reach, ok)
}

func (f *frame) setVal(v ssa.Value, x Val) { f.vals[v] = x }

func (f *frame) locOf(v ssa.Value) *Loc {
	if l, ok := f.locs[v]; ok {
		return l
	}
	p := f.get(v)
	return locOfRef(p[0], deref(v.Type()))
}

func (f *frame) step(in ssa.Instruction, st State, reach string) (State, bool) {
	c := f.c
	switch x := in.(type) {
	case *ssa.DebugRef:
		return st, false
	case *ssa.Alloc:
		r := st.alloc.term()
		st.alloc.off++
		f.setVal(x, Val{r})
		t := deref(x.Type())
		l := locOfRef(r, t)
		st.heap = c.store(st.heap, l, c.zeroVal(t))
		{
			var esc []ssa.Instruction
			unknown := collectEscapes(x, 0, &esc)
			if !unknown {
				f.privAllocs = append(f.privAllocs, privAlloc{v: x, loc: l, escapes: esc})
				st.heap = f.markPrivate(x, r, esc, st.heap)
			}
		}
		return st, false
	case *ssa.FieldAddr:
		base := f.locOf(x.X)
		if !f.isLocBase(x.X) {
			p := f.get(x.X)
			f.guard(reach, neq(p[0], "0"), "nil dereference (field address)", in)
		}
		f.locs[x] = locField(base, x.Field)
		f.setVal(x, Val{"0"}) // symbolic location only; materialised on escape
		return st, false
	case *ssa.IndexAddr:
		idx := f.get(x.Index)[0]
		switch xt := x.X.Type().Underlying().(type) {
		case *types.Slice:
			sv := f.get(x.X)
			f.guard(reach, and(le("0", idx), lt(idx, sv[2])), "index out of range", in)
			f.locs[x] = locElemOfSlice(sv, idx, xt.Elem())
		case *types.Pointer:
			at := xt.Elem().Underlying().(*types.Array)
			base := f.locOf(x.X)
			if !f.isLocBase(x.X) {
				f.guard(reach, neq(f.get(x.X)[0], "0"), "nil dereference (array)", in)
			}
			f.guard(reach, and(le("0", idx), lt(idx, num(at.Len()))), "index out of range", in)
			f.locs[x] = locElemOfArray(base, idx)
		default:
			c.note("indexaddr-unknown")
		}
		f.setVal(x, Val{"0"})
		return st, false
	case *ssa.UnOp:
		return f.unop(x, st, reach), false
	case *ssa.Store:
		l := f.locOf(x.Addr)
		if !f.isLocBase(x.Addr) {
			f.guard(reach, neq(f.get(x.Addr)[0], "0"), "nil dereference (store)", in)
		}
		v := f.escape(x.Val, &st, reach)
		st.heap = c.store(st.heap, l, v)
		return st, false
	case *ssa.BinOp:
		f.setVal(x, f.binop(x, reach))
		return st, false
	case *ssa.Phi:
		return st, false
	case *ssa.Convert:
		f.setVal(x, f.convert(x, &st, reach))
		return st, false
	case *ssa.ChangeType:
		f.setVal(x, f.get(x.X))
		if l, ok := f.locs[x.X]; ok {
			f.locs[x] = &Loc{accs: l.accs, typ: deref(x.Type())}
		}
		if n, ok := f.backN[x.X]; ok {
			f.backN[x] = n
		}
		return st, false
	case *ssa.ChangeInterface:
		f.setVal(x, f.get(x.X))
		return st, false
	case *ssa.MultiConvert:
		c.note("multiconvert")
		f.setVal(x, c.freshVal("mc", x.Type(), reach, st.alloc.term()))
		return st, false
	case *ssa.MakeInterface:
		f.setVal(x, f.makeIface(x.X, &st, reach))
		return st, false
	case *ssa.TypeAssert:
		f.typeAssert(x, &st, reach)
		return st, false
	case *ssa.Extract:
		tv := f.get(x.Tuple)
		tp := x.Tuple.Type().(*types.Tuple)
		a, b := tupleRange(tp, x.Index)
		f.setVal(x, tv[a:b])
		return st, false
	case *ssa.Field:
		sv := f.get(x.X)
		stt := x.X.Type().Underlying().(*types.Struct)
		a, b := fieldRange(stt, x.Field)
		f.setVal(x, sv[a:b])
		return st, false
	case *ssa.Index:
		f.index(x, st, reach)
		return st, false
	case *ssa.Slice:
		f.slice(x, &st, reach)
		return st, false
	case *ssa.SliceToArrayPointer:
		sv := f.get(x.X)
		at := deref(x.Type()).Underlying().(*types.Array)
		f.guard(reach, ge(sv[2], num(at.Len())), "slice to array pointer: length", in)
		if sv[1] == "0" {
			f.setVal(x, Val{sv[0]})
		} else {
			// pointer into the middle of a backing array: only loads are supported (value copy)
			f.s2a[x] = sv
			f.setVal(x, Val{"0"})
		}
		return st, false
	case *ssa.MakeSlice:
		ln := f.get(x.Len)[0]
		cp := f.get(x.Cap)[0]
		f.guard(reach, and(le("0", ln), le(ln, cp)), "makeslice: len out of range", in)
		r := st.alloc.term()
		st.alloc.off++
		et := x.Type().Underlying().(*types.Slice).Elem()
		for _, lf := range shapeOf(et) {
			mem := "E|" + elemKey(et) + "|" + lf.Path
			ms := memSort(lf.Sort, 2)
			t := c.heapGet(st.heap, mem, ms)
			st.heap = c.heapUpd(st.heap, mem, ms, sto(t, r, constArr(arrSort(lf.Sort), zeroLeaf(&lf))))
		}
		f.setVal(x, Val{r, "0", ln, cp})
		return st, false
	case *ssa.MakeMap:
		r := st.alloc.term()
		st.alloc.off++
		mt := x.Type().Underlying().(*types.Map)
		st.heap = c.mapInit(st.heap, r, mt)
		f.setVal(x, Val{r})
		return st, false
	case *ssa.MakeChan:
		r := st.alloc.term()
		st.alloc.off++
		f.setVal(x, Val{r})
		return st, false
	case *ssa.MakeClosure:
		r := st.alloc.term()
		st.alloc.off++
		f.setVal(x, Val{r})
		f.closure[x] = x
		// bindings that are addresses escape
		for _, b := range x.Bindings {
			f.escape(b, &st, reach)
		}
		return st, false
	case *ssa.Lookup:
		f.lookup(x, st, reach)
		return st, false
	case *ssa.MapUpdate:
		m := f.get(x.Map)[0]
		mt := x.Map.Type().Underlying().(*types.Map)
		f.guard(reach, neq(m, "0"), "assignment to entry in nil map", in)
		k := f.escape(x.Key, &st, reach)
		v := f.escape(x.Value, &st, reach)
		st.heap = c.mapStore(st.heap, m, mt, k, v)
		return st, false
	case *ssa.Range:
		// iterator: opaque; remember the collection
		f.setVal(x, Val{"0"})
		return st, false
	case *ssa.Next:
		f.next(x, st, reach)
		return st, false
	case *ssa.Select:
		c.note("select")
		st = f.havocAll(st, reach, "select")
		f.setVal(x, c.freshVal("sel", x.Type(), reach, st.alloc.term()))
		return st, false
	case *ssa.Send:
		c.note("chan-send")
		f.escape(x.X, &st, reach)
		return st, false
	case *ssa.Go:
		c.note("go-statement")
		st = f.callHavoc(x, st, reach, nil)
		return st, false
	case *ssa.Defer:
		return f.deferInstr(x, st, reach), false
	case *ssa.RunDefers:
		return f.runDefers(x, st, reach), false
	case *ssa.Call:
		return f.call(x, st, reach), false
	case *ssa.Panic:
		f.panicSite(reach, "explicit panic", in)
		return st, true
	case *ssa.Return:
		var res Val
		for _, r := range x.Results {
			res = append(res, f.escape(r, &st, reach)...)
		}
		f.exits = append(f.exits, &Exit{cond: reach, results: res, st: st, ret: x, block: in.Block()})
		return st, true
	case *ssa.Jump:
		b := in.Block()
		s := b.Succs[0]
		if f.isBackEdge(b, s) {
			f.backEdge(b, s, reach, st)
		} else {
			f.edge[[2]int{b.Index, s.Index}] = reach
		}
		return st, false
	case *ssa.If:
		b := in.Block()
		cv := f.get(x.Cond)[0]
		tc := c.bind("e", "Bool", and(reach, cv))
		fc := c.bind("e", "Bool", and(reach, not(cv)))
		for i, ec := range []string{tc, fc} {
			s := b.Succs[i]
			if f.isBackEdge(b, s) {
				f.backEdge(b, s, ec, st)
			} else {
				key := [2]int{b.Index, s.Index}
				if old, ok := f.edge[key]; ok {
					f.edge[key] = or(old, ec)
				} else {
					f.edge[key] = ec
				}
			}
		}
		return st, false
	}
	c.note(fmt.Sprintf("unsupported-instr:%T", in))
	if v, ok := in.(ssa.Value); ok {
		f.setVal(v, c.freshVal("uns", v.Type(), reach, st.alloc.term()))
	}
	return st, false
}

// isLocBase: the pointer value is a symbolic location (no nil check needed).
func (f *frame) isLocBase(v ssa.Value) bool {
	if _, ok := f.locs[v]; ok {
		return true
	}
	if _, ok := v.(*ssa.Alloc); ok {
		return true
	}
	if _, ok := v.(*ssa.Global); ok {
		return true
	}
	return false
}

// escape returns the value of v for use as a first-class value. Symbolic
// locations (field/element addresses) are materialised: a fresh reference is
// allocated and the current contents are copied in (copy-out happens after
// calls, see callHavoc/copyBack).
func (f *frame) escape(v ssa.Value, st *State, reach string) Val {
	if l, ok := f.locs[v]; ok {
		if mv, ok2 := f.vals[v]; ok2 && len(mv) == 1 && mv[0] != "0" {
			return mv
		}
		// pointer to a whole object reached through a plain ref: struct field at offset 0? no: materialise
		c := f.c
		r := st.alloc.term()
		st.alloc.off++
		nl := locOfRef(r, l.typ)
		st.heap = c.store(st.heap, nl, c.load(st.heap, l))
		c.note("materialised-interior-pointer")
		f.vals[v] = Val{r}
		f.matz = append(f.matz, matRec{v: v, from: l, to: nl})
		return Val{r}
	}
	return f.get(v)
}

type matRec struct {
	v    ssa.Value
	from *Loc
	to   *Loc
}

// assumeSealed: an interface with an unexported method can only be implemented by
// types of its own package (Go type system). When that package is loaded, the
// dynamic type tag of any value of the interface is nil or one of those types.
func (c *Ctx) assumeSealed(v Val, t types.Type, cond string) {
	if isLiteral(v[0]) {
		return
	}
	ids, ok := c.eng.sealedImpls(t)
	if !ok {
		return
	}
	alts := []string{eq(v[0], "0")}
	for _, id := range ids {
		alts = append(alts, eq(v[0], num(int64(id))))
	}
	c.assume(cond, or(alts...))
}

type privAlloc struct {
	v       *ssa.Alloc
	loc     *Loc
	escapes []ssa.Instruction // instructions at which the address is handed out
}

// collectEscapes gathers the instructions through which the address of a local variable becomes
// known outside the function body. Returns true when the uses cannot be classified.
func collectEscapes(v ssa.Value, depth int, out *[]ssa.Instruction) bool {
	if depth > 6 {
		return true
	}
	refs := v.Referrers()
	if refs == nil {
		return true
	}
	for _, r := range *refs {
		switch x := r.(type) {
		case *ssa.UnOp, *ssa.DebugRef:
		case *ssa.Store:
			if x.Val == v {
				*out = append(*out, x)
			}
		case *ssa.FieldAddr:
			if collectEscapes(x, depth+1, out) {
				return true
			}
		case *ssa.IndexAddr:
			if collectEscapes(x, depth+1, out) {
				return true
			}
		case *ssa.MakeClosure:
			crefs := x.Referrers()
			if crefs == nil {
				return true
			}
			onlyDeferred := true
			for _, cr := range *crefs {
				if d, ok := cr.(*ssa.Defer); !ok || d.Call.Value != ssa.Value(x) {
					onlyDeferred = false
				}
			}
			if !onlyDeferred {
				*out = append(*out, x)
			}
		case ssa.CallInstruction:
			// library models (math/big, uint256, ...) do not retain their arguments
			if callee, ok := x.Common().Value.(*ssa.Function); ok && lookupModel(callee) != nil && !x.Common().IsInvoke() {
				if _, isGo := x.(*ssa.Go); !isGo {
					// z.Op(...) returns z: the result is another name for the same object
					sig := callee.Signature
					if cv, isVal := x.(ssa.Value); isVal && sig.Recv() != nil && sig.Results().Len() >= 1 &&
						types.Identical(sig.Results().At(0).Type(), sig.Recv().Type()) && len(x.Common().Args) > 0 && x.Common().Args[0] == v {
						if sig.Results().Len() == 1 {
							if collectEscapes(cv, depth+1, out) {
								return true
							}
						} else {
							// tuple result: follow the extraction of component 0
							if crefs := cv.Referrers(); crefs != nil {
								for _, cr := range *crefs {
									if ex, ok := cr.(*ssa.Extract); ok && ex.Index == 0 {
										if collectEscapes(ex, depth+1, out) {
											return true
										}
									}
								}
							}
						}
					}
					continue
				}
			}
			*out = append(*out, x.(ssa.Instruction))
		case *ssa.Phi, *ssa.ChangeType, *ssa.MakeInterface, *ssa.ChangeInterface, *ssa.Convert, *ssa.Slice, *ssa.Extract, *ssa.TypeAssert:
			// the reference flows on under another SSA name: not tracked
			return true
		case ssa.Instruction:
			*out = append(*out, x)
		default:
			return true
		}
	}
	return false
}

func instrIndex(in ssa.Instruction) int {
	for i, x := range in.Block().Instrs {
		if x == in {
			return i
		}
	}
	return -1
}

// allocEscapes: may the address of this local variable be known to code outside the current
// function body before a deferred closure runs? Allowed uses: load/store through it, field and
// element addressing (recursively), and capture by a closure that is only deferred.
func allocEscapes(v ssa.Value, depth int) bool {
	if depth > 6 {
		return true
	}
	refs := v.Referrers()
	if refs == nil {
		return true
	}
	for _, r := range *refs {
		switch x := r.(type) {
		case *ssa.UnOp:
			// load
		case *ssa.Store:
			if x.Val == v {
				return true
			}
		case *ssa.FieldAddr:
			if allocEscapes(x, depth+1) {
				return true
			}
		case *ssa.IndexAddr:
			if allocEscapes(x, depth+1) {
				return true
			}
		case *ssa.MakeClosure:
			crefs := x.Referrers()
			if crefs == nil {
				return true
			}
			for _, cr := range *crefs {
				if d, ok := cr.(*ssa.Defer); !ok || d.Call.Value != ssa.Value(x) {
					return true
				}
			}
		case *ssa.DebugRef:
		default:
			return true
		}
	}
	return false
}

// restoreLocals: after a call whose effect is an array-level havoc, the private local variables
// of the current function (addresses never handed out) keep their contents.
func (f *frame) restoreLocals(old, nh *Heap, site ssa.Instruction) *Heap {
	c := f.c
	for _, pa := range f.privAllocs {
		// the address must not have been handed out before this call: every escaping use is
		// strictly dominated by the call site, and the call site is not inside a loop
		private := true
		if len(pa.escapes) > 0 {
			if site == nil || f.inLoop(site.Block()) {
				private = false
			} else {
				si := instrIndex(site)
				for _, e := range pa.escapes {
					if e == site {
						private = false // passed to this very call
						break
					}
					if e.Block() == site.Block() {
						if instrIndex(e) <= si {
							private = false
							break
						}
					} else if !site.Block().Dominates(e.Block()) {
						private = false
						break
					}
				}
			}
		}
		if !private {
			continue
		}
		for _, acc := range pa.loc.accs {
			ms := memSort(acc.leaf.Sort, len(acc.idx))
			if c.heapGet(old, acc.mem, ms) == c.heapGet(nh, acc.mem, ms) {
				continue
			}
			nh = c.storeAcc(nh, acc, c.loadAcc(old, acc))
		}
	}
	return nh
}

type privRef struct {
	ref     string
	escapes []ssa.Instruction
}

// markPrivate records that the object at ref is private until one of its escape points executes.
func (f *frame) markPrivate(v ssa.Value, ref string, esc []ssa.Instruction, h *Heap) *Heap {
	c := f.c
	c.privUsed = true
	if f.escapeAt == nil {
		f.escapeAt = map[ssa.Instruction][]string{}
	}
	for _, e := range esc {
		f.escapeAt[e] = append(f.escapeAt[e], ref)
	}
	f.privRefs = append(f.privRefs, privRef{ref: ref, escapes: esc})
	pv := c.heapGet(h, privMem, privSort)
	return c.heapUpd(h, privMem, privSort, sto(pv, ref, sTrue))
}
