#!/usr/bin/env python3
# Generates MANIFEST.json from the table below (single source of truth for claims).
import json, subprocess

CLAIMS = {
 "C17": dict(
   text="The pending view of a write batch (after SetPending(true): a deleted key reports (true,nil), a put key (false,value), an untouched key (false,nil); Reset clears it) is stated as field-level contracts and discharged for the real Put/Delete/GetPending/SetPending/Reset of the leveldb, pebble and memorydb batches; rawdb's table batch is verified to forward to the wrapped batch; two SMT lemmas check the step from the field-level contracts to the interface-level ghost contract used by clients. memorydb.Database.Has/Get/Put/Delete are proved against the finite-map reading of the store (presence, sizes, not-found and closed errors); pebble's iterator upperBound(prefix) is the shortest byte string above every key with the prefix (quantified postcondition).",
   note="Assumed: goleveldb / pebble engines themselves (b.b.Put/Delete/Commit are external), iterator order, Write/Replay semantics. The interface-level ghost contract (pendOn/pendDel) is trusted at client call sites; the refinement is checked only through the two abstract lemmas. Repaired defect: see KNOWN_FINDINGS.txt (fixed: a94806dd).",
   design="4 (C17)", technique="contract-based deductive verification: behavioural-subtyping contracts on each batch implementation, VCs from go/ssa, z3/cvc5"),
 "C01": dict(
   text="Once-only spending inside a Qi transaction on the real ProcessQiTx: loop invariants (bounds, tracking on, the outpoint just processed is recorded deleted in the pending batch, recorded deletions only grow) discharged on the real input loop; GetUTXOWithBatch returns nil for an outpoint recorded deleted and DeleteUTXO records the deletion (contracts discharged on the real functions); an SMT lemma gives the induction step to pairwise-distinct inputs. Holds for every storage engine through the C17 batch contracts.",
   note="Not yet under contract: value conservation (inputs = outputs + fee), denomination rule, ownership/signature obligations, worker path. Assumed: UtxoKey is a function of (hash,index); ethdb.Batch ghost contract at interface call sites (backed by C17); cross-block durability rests on the KV engines.",
   design="4 (C01)", technique="contract-based deductive verification with ghost pending-view state and loop invariants, VCs from go/ssa, z3/cvc5"),
 "C12": dict(
   text="Frame contracts on the real EVM call kinds: Call, CallCode, DelegateCall, StaticCall end in an error only after revertToSnapshot(snapshot taken at entry) or with no journalled mutation, so the mutation counter and the ETX / deleted-lockup list lengths are those at entry (post-fork for the lockup branch, as in the code); evm.snapshot/revertToSnapshot record and restore the state revision and both list lengths. Ghost state (mut, snapTaken, mutAt) is threaded through the vm.StateDB interface contract. Call additionally must leave no pending deletion in the block batch behind when it fails (two exits are known findings: the batch is not restored by revertToSnapshot). Nine journal mutator/entry pairs: the entry is appended before the first tracked write and its revert restores every field the mutator writes (structural obligations plus per-entry revert contracts).",
   note="Assumed (trusted) contracts: vm.StateDB methods' ghost effects (RevertToSnapshot restores mut to its value at Snapshot: the journal obligations J1-J4 of core/state are not yet discharged), interpreter.Run / RunLockupContract never rewrite older snapshot records, precompiles and tracers are read-only. Not yet under contract: create/Create (ErrCodeStoreOutOfGas path), the coinbasesDeleted map vs. evm.Batch coupling.",
   design="4 (C12)", technique="contract-based deductive verification with ghost state (snapshot/mutation counters), per-exit VCs from go/ssa, z3/cvc5"),
 "C08": dict(
   text="P-accept contracts on the real seal checks: verifySeal accept => difficulty>0 and be(powHash) <= floor(2^256/difficulty) and the returned hash is the computed one; CheckWorkThreshold / CalcWorkShareThreshold accept => thresholdDiff>0 and be(powHash) <= floor(2^256/diff)*2^thresholdDiff; plus an SSA data-flow obligation that every WorkObjectHeader field except the declared seal/cache fields flows into SealEncode.",
   note="Assumed: the PoW hash engines (ComputePowHash is a trusted contract: deterministic, read-only), hash collision-freedom. Not yet under contract: AuxPoW branch of verifyHeader, Header.SealEncode coverage, CheckIfValidWorkShare post-fork branch.",
   design="4 (C08)", technique="contract-based deductive verification (accept => bound) over big.Int models + SSA field-flow obligations"),
 "C03": dict(
   text="crypto.ValidateSignatureValues accepts exactly 1<=r<N, 1<=s<=N/2, v in {0,1} (functional postcondition, for all inputs), with N and N/2 proved from the package initialiser and shown never to be reassigned (SSA scan).",
   note="Partial: only the signature-value predicate is under contract so far; recoverPlain, SignerV1.Sender chain-id guard, Sender cache and the Qi signature obligations are not yet. ECDSA/Schnorr/MuSig2/keccak are external and assumed.",
   design="4 (C03)", technique="contract-based deductive verification: functional postcondition over big.Int models, VCs from go/ssa, z3/cvc5"),
 "C05": dict(
   text="All-or-nothing postconditions on the real opETX and opConvert (every exit: one status word replaces the operands; status 1 => exactly one ETX appended and the sender debited exactly value+fee; status 0 => no ETX and no debit; no credit ever), with balances tracked as ghost debit/credit counters through the vm.StateDB interface contract. Discharged per exit and per clause by SMT from go/ssa of the working tree, for all stack contents, balances and fork numbers.",
   note="Assumed (trusted) contracts: vm.StateDB.SubBalance/AddBalance ghost accounting, ContractRef.Address is a function of the reference, CanTransfer/CheckIfEtxEligible hooks are read-only, rlp.DecodeBytes frame; library models for uint256/big.Int. Not yet under contract: CreateETX/Call, UnwrapQi, ClaimCoinbaseLockup, receipt hand-off.",
   design="4 (C05)", technique="contract-based deductive verification: per-exit weakest-precondition VCs from go/ssa with ghost state, discharged by z3/cvc5"),
 "C16": dict(
   text="Contracts on the real address constructors/predicates of package common (IsInChainScope, Location.Context/BytePrefix, ...) discharged for all inputs by SMT from go/ssa of the working tree: classification agrees with the single spec predicate internal(a,loc) <=> ctx(loc)=ZONE and a[0]=prefix(loc). Per-constructor, unbounded in the input.",
   note="Trusted: gvc SSA->SMT translation, solvers, library models (math/big, uint256), inferred frames for calls without contract. Not decided: call sites outside the listed functions.",
   design="4 (C16)", technique="contract-based deductive verification: weakest-precondition VCs from go/ssa, discharged by z3/cvc5"),
 "C04": dict(
   text="The destination ETX queue in StateDB (a trie used as a finite map; its map behaviour is the assumed interface contract of state.Trie, expressed with ghost maps trieHas/trieVal): PopETX on an empty queue changes no cell and returns (nil,nil); ReadETX, GetOldestIndex and GetNewestIndex never write; a successful PushETX leaves a value under the tail-index key; the index getters return fresh non-negative numbers. Discharged per exit on the real functions.",
   note="Assumed: Trie.TryGet/TryUpdate/TryDelete behave as a finite map (C18 is not proved), rlp encode/decode frames. Not under contract: FIFO order across pushes/pops as a sequence (needs an inductive queue invariant over key strings), FilterToSub routing, Process' pop-and-compare, cross-chain routing (slice.go, headerchain.go) - those parts of the property are not decided.",
   design="4 (C04)", technique="contract-based deductive verification with ghost finite-map state for the trie interface, per-exit VCs from go/ssa, z3/cvc5"),
 "C06": dict(
   text="ValidateState accepts (returns nil) only if the header's utxoRoot equals the hash of the multiset that execution produced, and gasUsed/stateUsed/receipt, EVM, ETX-set roots, state size and uncled entropy equal the recomputed values (P-accept clauses discharged on the real function for every exit); a coinbase lockup whose deletion is recorded in the pending batch reads as absent in ReadCoinbaseLockup, and DeleteCoinbaseLockup records the deletion.",
   note="Assumed: MultiSet.Hash, DeriveSha, IntermediateRoot, ETXRoot are deterministic read-only functions (trusted contracts); ethdb.Batch ghost contract (backed by C17). Not under contract: that the multiset passed in is exactly spent/created outputs (Process), Finalize, the worker path.",
   design="4 (C06)", technique="contract-based deductive verification: accept => equality clauses per exit, VCs from go/ssa, z3/cvc5"),
 "C07": dict(
   text="P-accept contract on the real BlockValidator.ValidateState: a nil result implies header.gasUsed == usedGas, header.stateUsed == usedState, receiptHash == DeriveSha(receipts), evmRoot == IntermediateRoot, quaiStateSize == trie size, utxoRoot == multiset hash, etxSetRoot == ETXRoot, outboundEtxHash == DeriveSha(etxs), uncledEntropy == UncledLogEntropy(block); discharged for every exit of the function.",
   note="Assumed (trusted, deterministic, read-only): DeriveSha, IntermediateRoot, ETXRoot, GetQuaiTrieSize, MultiSet.Hash, UncledLogEntropy, CopyHeader field equality. Determinism of re-execution itself (Process as a function of parent state and block) is not decided.",
   design="4 (C07)", technique="contract-based deductive verification: accept => equality clauses per exit, VCs from go/ssa, z3/cvc5"),
 "C09": dict(
   text="P-accept contract on the real HeaderChain.verifyHeader (187 blocks, 68 exits): a nil result implies header.Time >= parent.Time, for non-uncles header.Time <= now + 15 s, header.Number(ctx) == (genesis parent ? 0 : parent.Number(ctx)) + 1 in the node's context, and in a zone gasUsed <= gasLimit, stateUsed <= stateLimit and gasLimit equals the protocol rule of (parent number, parent gas limit, ceiling) - the rule itself is proved for CalcGasLimit and CalcStateLimit (nothing for the first TimeToStartTx blocks, the minimum right after, a linear ramp for two months, the ceiling afterwards); TotalLogEntropy writes to no pre-existing number (frame 'modifies nothing' discharged on the real function).",
   note="Assumed (trusted frames/contracts): CalcOrder, WorkShareLogEntropy, IsGenesisHash, NodeLocation (length is a function of the chain object), database readers GetHeaderByHash/GetBlock/GetBlockByHash/GetBlockNumber and ComputeExpansionNumber touch only caches, WorkObject.Hash is a function of the header object within one call. Not under contract: the entropy accumulation formulas (DeltaLogEntropy, UncledDeltaLogEntropy), difficulty/gas-limit/base-fee conjuncts, fork choice.",
   design="4 (C09)", technique="contract-based deductive verification: accept => conjunct clauses per exit on a large function with trusted callee frames, VCs from go/ssa, z3/cvc5"),
 "C13": dict(
   text="Pending-view contracts on the real lockup accessors: ReadCoinbaseLockup returns (0,0,0) for a lockup whose deletion the pending batch records, whatever the database holds, and never writes; DeleteCoinbaseLockup records the deletion in a tracking batch; CalculateReward returns a fresh copy of the Quai or Qi reward of its arguments; the lockup bonus: CalculateLockupByteRewardsMultiple accepts exactly lockup bytes 1..3 and its result lies between the terminal and the first-year multiple of the table (table values and blocks-per-year proved from the package initialiser), CalculateCoinbaseValueWithLockup returns the value itself without lockup and otherwise at most value x first-year multiple / 100000, neither panics (nonlinear arithmetic); AddNewLock's undo record (see C10); a failed frame must leave no pending lockup deletion in the block batch (EVM.Call clause 4: known finding).",
   note="Assumed: CoinbaseLockupKey is a function of its arguments (trusted), ethdb.Batch ghost contract (C17). Not under contract: RedeemLockedQuai / AddNewLock loops, the reward split among work shares, lockup-contract execution.",
   design="4 (C13)", technique="contract-based deductive verification with ghost pending-view state, VCs from go/ssa, z3/cvc5"),
 "C15": dict(
   text="(b) Memory metering: every memory-size function of the EVM jump table (memorySha3 ... memoryLog, memoryMcopy, memoryCall/DelegateCall/StaticCall, memoryCreate/2) returns exactly offset+length of the documented stack operands or reports overflow (functional postconditions for all 256-bit operands); calcMemSize64(WithUint) likewise; memoryGasCost charges C(w)-lastGasCost with C(w)=3w+w*w/512 and refuses sizes above 0x1FFFFFFFE0 (nonlinear 64-bit arithmetic, no overflow); Memory.Resize grows to max(len,size). (a) No-panic: parseScriptPush, the four Extract...FromCoinbase parsers and 25 wire decoders of core/types (ProtoDecode of OutPoint, TxIn(s), TxOut(s), UtxoEntry, SpentUtxoEntry, Termini, BlockManifest, Bloom, AccessList, Transactions, Header, WorkObjectHeader, WorkObjectBody, AuxPow, AuxTemplate, PendingEtxs(Rollup), PendingHeader, TokenChoiceSet, Betas, LogForStorage, PowShareDiffAndCount) are panic-free for every input object (every index, slice bound, nil dereference and division in the bodies and their inlined helpers is a discharged obligation), and a header decoded after the KawPow fork carries complete share records (defect found by this clause and repaired: fixed 743d7036).",
   note="Not under contract: the jump-table invariant (every op with memorySize has a dynamicGas that charges it) - known defect: ETX has memoryETX but no dynamicGas (DESIGN 4.0); protobuf/rlp decoders, p2p validators, hexutil; allocation inside libraries; time. Assumed: uint256/binary library models.",
   design="4 (C15)", technique="contract-based deductive verification: functional postconditions and implicit safety obligations, VCs from go/ssa, z3/cvc5 (nonlinear mode for the fee)"),
 "C20": dict(
   text="QuaiToQi and QiToQuai return exactly quo(qiReward*amount, quaiReward) resp. quo(quaiReward*amount, qiReward) at the header, difficulty and exchange rate they are given, write nothing and return a fresh number (functional postconditions on the real functions); SMT lemmas (nonlinear): a round trip Quai->Qi->Quai or Qi->Quai->Qi at a fixed positive rate never yields more than the start, and truncation only reduces. EVM.create keeps no ETX queued by a failed creation (shared with C12; the ErrCodeStoreOutOfGas exit is a known finding).",
   note="Assumed: CalculateQuaiReward / CalculateQiReward are deterministic read-only non-zero functions of (header, difficulty[, rate]) (trusted: LogBig and the multi-algorithm adjustment are outside the subset). Not under contract: prime repricing loops in Slice.Append, ApplyCubicDiscount (big.Float), FindMinDenominations sum, refund on slippage in Process.",
   design="4 (C20)", technique="contract-based deductive verification: functional postconditions over big.Int models plus nonlinear SMT lemmas, z3/cvc5"),
 "C14": dict(
   text="Decoders hand out objects of their own: Transaction.ProtoDecode returns a fresh payload whose ExternalTx.Value is a fresh number (it is mutated in place later by setValue). Wire pairs: OutPoint.ProtoEncode writes exactly the index and the 32 hash bytes, ProtoDecode reads the index modulo 2^16 and the hash, and an SMT lemma gives decode(encode(x)) = x; TxOut.ProtoDecode carries exactly the wire denomination (rejected above 255, never truncated), the address bytes and the big-endian lock, TxOut.ProtoEncode writes them (a nil lock is written as 0, a negative one as its magnitude); the same for the stored form UtxoEntry.ProtoEncode / ProtoDecode (a nil wire lock decodes to nil) and for the address-index entries OutpointAndDenomination (whose decoder narrows index and denomination without a range check - stated as such). Database keys: UtxoKey's byte layout (prefix | 32 hash bytes | big-endian index, 36 bytes) and ReverseUtxoKey's parse are proved on the real functions and an SMT lemma composes them to ReverseUtxoKey(UtxoKey(h,i)) = (h,i); likewise CoinbaseLockupKey (prefix | owner | miner | lockup byte | big-endian epoch, 47 bytes, through a four-level append chain) and ReverseCoinbaseLockupKey with their round-trip lemma.",
   note="Not under contract: distinctness of the transactions decoded by ReceiptForStorage.ProtoDecode (a quantified loop invariant proved it, but only one solver found the proof in 4-6 s and not on every run, so it is not claimed); field-by-field encode/decode equality for transactions, headers, work objects, receipts; RLP / JSON (reflection) and protobuf marshalling; hash stability. Assumed: binary.BigEndian models, proto getters. The QuaiTx branch of Transaction.ProtoDecode aliases common.Big0 for an empty value - benign today because QuaiTx has no in-place setValue (noted in DESIGN).",
   design="4 (C14)", technique="contract-based deductive verification: freshness postconditions with allocation-counter reasoning, byte-layout postconditions + SMT lemma"),
 "C19": dict(
   text="Sequential contracts on the per-account list: txSortedMap.Put stores the transaction under its nonce, always drops the sorted cache and grows the map by one exactly for a new nonce; txSortedMap.Remove deletes exactly the nonce, reports presence and drops the cache when the content changed; txList.Add accepts a same-nonce replacement only if the new price is strictly higher and reaches old*(100+bump)/100, returns the replaced transaction, leaves the list untouched on refusal and raises costcap/gascap to cover an accepted transaction.",
   note="The quantifier over interleavings is NOT decided: these are per-call contracts of code that the pool runs under pool.mu; locking discipline, deadlock freedom, index agreement between pending/queue/all/priced and nonce contiguity are not under contract. Assumed: transaction payloads are immutable (trusted TxData.nonce/gasPrice/gas/value interface contracts), container/heap only touches the index heap.",
   design="4 (C19)", technique="contract-based deductive verification: functional postconditions over map models and big.Int models, VCs from go/ssa, z3/cvc5"),
 "C10": dict(
   text="Undo-log content for coinbase lockups: when vm.AddNewLock overwrites a stored lockup record, the undo data it returns (the only input of the reorg rollback for that key) records the delegate that was stored, not the delegate of the update, and no undo data is returned when nothing was overwritten; discharged for every exit of the real function. A defect of exactly this kind was found by this obligation and repaired (fixed: afeeeaad).",
   note="This is one obligation of the property, not the property: the rollback loop of HeaderChain.SetCurrentHeader (one 250-line function with nested loops over database batches), the created/spent UTXO logs, address indexes, canonical-hash and head updates, and equality with a node that only saw the winning branch are NOT under contract (a relational invariant over key-string maps per loop did not discharge). Assumed: WriteCoinbaseLockupToSlice serialises the delegate it is given (trusted), the delegate returned by ReadCoinbaseLockup is a function of its arguments (assumed clause).",
   design="4 (C10)", technique="contract-based deductive verification: postcondition on the undo record with uninterpreted naming of the stored value, VCs from go/ssa, z3/cvc5"),
 "C02": dict(
   text="The straight-line money movements of a Quai transaction, with balances as ghost debit/credit counters of the vm.StateDB interface: buyGas debits exactly gas-limit x price or nothing (and records initialGas = gas limit); refundGas credits exactly remaining-gas x price, debits nothing, and the remaining gas grows by at most used/quotient (so the net charge lies between (used - used/q) x price and gas-limit x price); core.Transfer debits and credits the same amount or neither; EVM.create / Create / Create2 end in an error only with the mutation counter at its entry value (except the known ErrCodeStoreOutOfGas finding).",
   note="NOT decided: the sum-of-all-balances invariant through the interpreter loop and every opcode, ETX value leaving the ledger, self-destruct refund, non-negativity of balances (GetBalance is an uninterpreted read). Assumed (trusted): vm.StateDB.SubBalance/AddBalance ghost accounting, GetRefund is a function of (state, version), Message.Gas is a function of the message.",
   design="4 (C02)", technique="contract-based deductive verification: per-exit postconditions with ghost debit/credit counters, VCs from go/ssa, z3/cvc5"),
}

NA = {
 "C11": "crash points quantify over prefixes of the DB write sequence plus a restart; no per-call contract (pre/post/invariant/lemma) expresses it (DESIGN 4, C11)",
 "C18": "needs an inductive representation invariant over a recursive interface-typed node graph plus hash injectivity; not within reach of a self-written VC generator (DESIGN 4, C18)",
}
PENDING = "contracts for this property are not yet discharged in this revision of /verif; not claimed until they are (see DESIGN.md section 7)"

props = [json.loads(l)["id"] for l in open("/verif/properties.jsonl")]
checks = []
for p in props:
    if p in CLAIMS:
        c = CLAIMS[p]
        checks.append({
            "property_id": p,
            "quick_cmd": f"./check {p} --tier quick",
            "thorough_cmd": f"./check {p} --tier thorough",
            "evidence_file": f"/verif/evidence/{p}.json",
            "replay_cmd_template": "./check --replay {path}",
            "engine": "gvc",
            "level_claimed": {"category": "proof", "text": c["text"], "design_ref": c["design"]},
            "level_note": c["note"],
            "technique": c["technique"],
        })
na = []
for p in props:
    if p not in CLAIMS:
        na.append({"property_id": p, "reason": NA.get(p, PENDING)})
hooks = subprocess.run(["git","-C","/repo","log","--format=%H %s","a887bf42..HEAD"],capture_output=True,text=True).stdout.strip().split("\n")
hook_commits = [h.split()[0] for h in hooks if h and " hook:" in " "+h.split(" ",1)[1] ]
m = {
 "version": 1,
 "setup_cmd": "export GOFLAGS=-mod=mod GOPROXY=off GOSUMDB=off GOTOOLCHAIN=local; mkdir -p bin && cd gvc && go build -o ../bin/gvc . && ../bin/gvc warm",
 "hooks": {
   "guard": "verif",
   "enable": "-tags=verif (Go build tag; the contract files /repo/**/zz_verif_contracts.go are comment-only and carry //go:build verif)",
   "baseline_off_cmd": "cd /repo && go test -mod=mod -json -vet=off -count=1 -timeout 25m ./...",
   "source_commits": hook_commits,
   "add_only": True,
 },
 "engines": [{"name": "gvc", "path": "/verif/gvc", "serves_properties": sorted(CLAIMS.keys()),
   "kind_free_text": "self-written deductive verifier for Go: contracts as //@ comments in build-tagged files in /repo, VCs generated from go/ssa of the working tree, discharged by z3 5.1.0 / cvc5 1.0.3 / z3 4.8.12; plus an SSA structural back end (ssa-frame)"}],
 "checks": checks,
 "not_applicable": na,
 "notes": "See DESIGN.md. Known defects of the pinned tree are listed in KNOWN_FINDINGS.txt.",
}
json.dump(m, open("/verif/MANIFEST.json","w"), indent=1)
print("claims:", sorted(CLAIMS.keys()))
