#!/bin/bash
# Must-fail corpus: run every stored seeded change (/verif/seeded/<id>/<name>/) through seedcheck.sh
# (scratch worktree of /repo HEAD, removed afterwards) and compare the outcome of the property's quick
# check with the expectation recorded in meta.json. Summary in /tmp/seedall.summary; exit 1 if a change
# that is recorded as caught is no longer caught. Never run two instances at once (shared scratch dir).
# usage: seedall.sh [dir-with-deliveries]   (default /verif/seeded)
root=${1:-/verif/seeded}
out=/tmp/seedall.summary; : > $out
bad=0
for d in $root/*/m* $root/*.out/m*; do
  [ -f "$d/patch.diff" ] || continue
  prop=$(basename $(dirname $d) .out); name=$(basename $d)
  log=/tmp/sc-$prop-$name.log
  /verif/seedcheck.sh $prop $d > $log 2>&1
  viol=$(grep -c "^VIOLATION" $log)
  last=$(grep "^property " $log | tail -1)
  exp=$(python3 -c "import json;print(json.load(open('$d/meta.json')).get('check',{}).get('caught_by_quick_check',''))" 2>/dev/null)
  echo "$prop/$name violations=$viol expected_caught=$exp :: $last" >> $out
  if [ "$exp" = "True" ] && [ "$viol" = "0" ]; then bad=1; echo "REGRESSION: $prop/$name is no longer caught" >> $out; fi
done
echo done >> $out
exit $bad
