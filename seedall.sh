#!/bin/bash
# run every delivered mutant through seedcheck; summary in /tmp/seedall.summary
out=/tmp/seedall.summary; : > $out
for d in /tmp/wt/*.out/m*; do
  [ -f "$d/patch.diff" ] || continue
  prop=$(basename $(dirname $d) .out); name=$(basename $d)
  log=/tmp/sc-$prop-$name.log
  /verif/seedcheck.sh $prop $d > $log 2>&1
  viol=$(grep -c "^VIOLATION" $log)
  last=$(grep "^property " $log | tail -1)
  echo "$prop/$name violations=$viol :: $last" >> $out
done
echo done >> $out
