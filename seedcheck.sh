#!/bin/bash
# seedcheck.sh <prop> <mutant-dir> : confirm a seeded change and run the property's check against it.
# Works in a scratch worktree of /repo's HEAD (contracts included); removes it afterwards.
export GOFLAGS=-mod=mod GOPROXY=off GOSUMDB=off GOTOOLCHAIN=local
prop="$1"; mdir="$2"; name=$(basename "$mdir")
wt=/tmp/sc/$prop-$name
rm -rf "$wt"; mkdir -p /tmp/sc
git -C /repo worktree add -q --detach "$wt" HEAD || exit 2
trap 'git -C /repo worktree remove --force "$wt" >/dev/null 2>&1' EXIT
pkgdir=$(python3 -c "import json;print(json.load(open('$mdir/meta.json'))['demo_pkg_dir'])")
run=$(python3 -c "import json;print(json.load(open('$mdir/meta.json'))['demo_run'])")
run=${run#-run }
if [ -f "$mdir/demo_test.go" ]; then cp "$mdir/demo_test.go" "$wt/$pkgdir/zz_seeded_demo_test.go"; else cp "$mdir/demo_test.go.txt" "$wt/$pkgdir/zz_seeded_demo_test.go"; fi
echo "== $prop/$name: demo WITHOUT change (expect pass)"
( cd "$wt" && go test -vet=off -count=1 -timeout 600s -run "$run" ./$pkgdir/ 2>&1 | tail -3 ); r0=${PIPESTATUS[0]}
( cd "$wt" && git apply "$mdir/patch.diff" ) || { echo "patch does not apply"; exit 2; }
echo "== build with change"
( cd "$wt" && go build ./... 2>&1 | tail -3 )
echo "== demo WITH change (expect fail)"
( cd "$wt" && go test -vet=off -count=1 -timeout 600s -run "$run" ./$pkgdir/ 2>&1 | tail -6 )
rm -f "$wt/$pkgdir/zz_seeded_demo_test.go"
if [ "$3" = "--tests" ]; then
  echo "== existing tests of touched packages WITH change"
  pk=$(cd "$wt" && git diff --name-only | xargs -n1 dirname | sort -u | sed 's|^|./|' | tr '\n' ' ')
  ( cd "$wt" && go test -vet=off -count=1 -timeout 1500s $pk 2>&1 | tail -8 )
fi
echo "== gvc check $prop against the changed tree"
/verif/bin/gvc check -repo "$wt" -verif /verif -no-evidence "$prop" 2>&1 | grep -v "^KNOWN-FINDING" | tail -8
